"""RX obligations for C10 (literal languages, error coverage, rule priority, `re` contract)
and C09 (no newline / non-empty rules, fixed-token buckets, keywords, adjacency).

Everything about the lexer is read from the CURRENT repo tree on every run:
pattern strings and tables from the imported real module, line spans / hashes from its
source through `ast`.  The reference side is /verif/spec/lexical.py (C99 6.4).

MODEL OF THE LEXER used by the obligations (c_lexer.CLexer._match_token, relative to the
assumed `re` contract R1-R4 below).  At remaining text t:
  * rule k "matches a prefix" iff t in pref_k;  ends_k(t) = { |u| : u MARK v in graph_k,
    u v = t } are the lengths its pattern can match in the true right context;
  * the master alternation selects the FIRST rule (in _regex_rules order) with a match (R2)
    and returns that rule's LONGEST match (R4);
  * the longest fixed token that is a prefix of t replaces it iff it is strictly longer.
"""
from __future__ import annotations

import ast
import hashlib
import itertools
import os
import re
import sys
import time
import unicodedata
from typing import Dict, List, Optional, Tuple

if __package__ in (None, ""):  # run as a script: make /verif importable
    sys.path.insert(0, os.path.dirname(os.path.dirname(os.path.abspath(__file__))))
from pyvc import core, rx
from pyvc.core import DISCHARGED, REFUTED, UNDECIDED, FuncInfo, Ob, Result

if core.VERIF not in sys.path:
    sys.path.insert(0, core.VERIF)
from spec import lexical as S  # noqa: E402

import z3  # noqa: E402

LEXER_FILE = "pycparser/c_lexer.py"
TIMEOUT_MS = {"quick": 10000, "thorough": 60000}
# z3's budget on a query that rx.dfa_decide has already decided (quick tier only; in the
# thorough tier z3 always gets the full 60 s)
CONFIRM_MS = {"quick": 1500, "thorough": None}
# measured on the build machine (16 vCPUs): 8 workers give the shortest wall time, more are slower
PROCS = int(os.environ.get("VERIF_PROCS", "0") or 0) or min(8, os.cpu_count() or 4)

RE_CONTRACT = [
    "R1: re.Pattern.match(text, pos) is None iff no alternative of the master alternation matches a prefix of text[pos:]",
    "R2: otherwise m.lastgroup is the first alternative, in order, that matches some prefix",
    "R3: the matched text is a match of that alternative in its true right context",
    "R4: for the rules of this lexer the match returned is the longest prefix that alternative can match",
]


# ----------------------------------------------------------------------------------------
# context: the real module's data, translated once per process (workers inherit it by fork)
# ----------------------------------------------------------------------------------------
class Ctx:
    def __init__(self):
        self.L = core.repo_import("pycparser.c_lexer")
        L = self.L
        self.rules: List[Tuple[str, str, str]] = [
            (r.tok_type, r.regex_pattern, r.action.name) for r in L._regex_rules]
        self.names = [r[0] for r in self.rules]
        self.pattern = {n: p for n, p, _ in self.rules}
        self.action = {n: a for n, _, a in self.rules}
        self.index = {n: i for i, n in enumerate(self.names)}
        self.T: Dict[str, rx.Translator] = {}
        self.untranslatable: Dict[str, str] = {}
        self._cache: Dict[Tuple[str, str], object] = {}
        for n, p, _ in self.rules:
            try:
                t = rx.Translator(p)
                for kind in ("full", "pref", "graph", "at_or_beyond", "any_marked"):
                    self._cache[(kind, n)] = getattr(t, kind)()
                self.T[n] = t
            except rx.Untranslatable as e:
                self.untranslatable[n] = str(e)
        # auxiliary patterns the lexer uses outside the master regex (translated to show
        # that the translation covers them; `_line_pattern` uses \d and \W)
        self.aux: Dict[str, str] = {}
        for nm in ("_line_pattern", "_pragma_pattern", "_decimal_constant", "_string_literal"):
            v = getattr(L, nm, None)
            if v is not None:
                self.aux[nm] = v.pattern if hasattr(v, "pattern") else v
        self.aux_status: Dict[str, str] = {}
        self.aux_generic: Dict[str, Optional[str]] = {}
        for nm, p in self.aux.items():
            try:
                t = rx.Translator(p)
                t.full()
                self.aux_status[nm] = "translated"
                self.aux_generic[nm] = rx.generic_char_check(t.csets, t.categories)
            except rx.Untranslatable as e:
                self.aux_status[nm] = f"untranslatable: {e}"
        csets, cats = [], set()
        for t in self.T.values():
            csets += t.csets
            cats |= t.categories
        self.generic_problem = rx.generic_char_check(csets, cats)
        self.ops_seen = sorted(set().union(*[t.ops_seen for t in self.T.values()]) if self.T else [])
        self.master_ok = self._master_is_alternation()

    def _master_is_alternation(self) -> Optional[str]:
        """The master regex must be exactly (?P<T1>p1)|(?P<T2>p2)|... in rule order."""
        want = "|".join(f"(?P<{n}>{p})" for n, p, _ in self.rules)
        got = getattr(self.L._regex_master, "pattern", None)
        if got != want:
            return "c_lexer._regex_master.pattern is not the '|'-join of (?P<tok_type>pattern) in _regex_rules order"
        if self.L._regex_master.flags & ~re.UNICODE:
            return f"_regex_master compiled with flags {self.L._regex_master.flags}"
        return None

    def lang(self, kind: str, name: str):
        return self._cache[(kind, name)]

    def ok(self, *names) -> Optional[str]:
        for n in names:
            if n in self.untranslatable:
                return f"rule {n}: Untranslatable: {self.untranslatable[n]}"
        return None


_CTX: Optional[Ctx] = None


def ctx() -> Ctx:
    global _CTX
    if _CTX is None:
        _CTX = Ctx()
    return _CTX


# non-ASCII decimal digits (Unicode general category Nd), from unicodedata -- reference side
def _nd_non_ascii() -> rx.CSet:
    rs = []
    for c in range(0x80, rx.MAXCH + 1):
        if unicodedata.category(chr(c)) == "Nd":
            rs.append((c, c))
    return rx.cs_norm(rs)


_strata_cache = None


def strata():
    """A cover of all strings, used to keep known deviations from masking everything else:
    'non-ascii-digit' (contains a decimal digit other than 0-9), 'ucn' (contains \\uXXXX or
    \\UXXXXXXXX and no such digit), 'core' (neither); they partition all strings, so the
    conjunction over the three strata IS the unrestricted obligation."""
    global _strata_cache
    if _strata_cache is None:
        has_ucn = rx.cat(rx.ANYSTAR, S.ucn, rx.ANYSTAR)
        has_nd = rx.cat(rx.ANYSTAR, rx.cls(_nd_non_ascii()), rx.ANYSTAR)
        _strata_cache = {
            "core": [(has_ucn, False), (has_nd, False)],
            "ucn": [(has_ucn, True), (has_nd, False)],
            "non-ascii-digit": [(has_nd, True)],
        }
    return _strata_cache


# ----------------------------------------------------------------------------------------
# running the REAL lexer (in-process validation of witnesses, and the replay prelude)
# ----------------------------------------------------------------------------------------
REPLAY_PRELUDE = '''
import re
from pycparser import c_lexer
from pycparser.c_lexer import CLexer

def new_lexer(errors):
    return CLexer(error_func=lambda msg, line, col: errors.append((msg, line, col)),
                  on_lbrace_func=lambda: None, on_rbrace_func=lambda: None,
                  type_lookup_func=lambda name: False)

def lex_all(text):
    errors = []
    lx = new_lexer(errors)
    lx.input(text)
    toks = []
    while True:
        t = lx.token()
        if t is None:
            break
        toks.append((t.type, t.value))
        if len(toks) > 10000:
            break
    return toks, errors

def first_step(text):
    """one call of the real CLexer._match_token at position 0: (token or None, errors, consumed)"""
    errors = []
    lx = new_lexer(errors)
    lx.input(text)
    t = lx._match_token()
    return (None if t is None else (t.type, t.value)), errors, lx._pos

def rule_pattern(tok_type):
    return [r.regex_pattern for r in c_lexer._regex_rules if r.tok_type == tok_type][0]

def match_ends(pattern, text):
    """all end positions of matches of pattern at the start of text (true right context)"""
    return [n for n in range(len(text) + 1)
            if re.match("(?:%s)(?=(?s:.{%d})\\\\Z)" % (pattern, len(text) - n), text)]
'''

_prelude_ns: Optional[dict] = None


def real():
    """The prelude's helpers bound to the real module of core.REPO (in-process)."""
    global _prelude_ns
    if _prelude_ns is None:
        ctx()  # imports the repo modules from core.REPO first
        ns: dict = {}
        exec(REPLAY_PRELUDE, ns)
        _prelude_ns = ns
    return _prelude_ns


def show(w: str) -> str:
    """ascii rendering; the position marker of marked languages is shown as <|>"""
    return ascii(w).replace("\\U0002ffff", "<|>")


# ----------------------------------------------------------------------------------------
# obligations as bundles of solver queries
# ----------------------------------------------------------------------------------------
class RxOb:
    """One obligation = a list of emptiness queries that must ALL be unsat.
    validate(label, witness) -> (really_fails: bool, text) re-checks a model concretely with
    the real lexer / real `re` and the reference evaluator;  replay(label, witness) -> str."""

    def __init__(self, name, functions, queries, validate, replay, sample, backend="RX/z3"):
        self.name, self.functions, self.queries = name, functions, queries
        self.validate, self.replay, self.sample, self.backend = validate, replay, sample, backend
        self.pre_status: Optional[Tuple[str, str]] = None  # decided without the solver
        # refine() -> obligations whose conjunction is this one (its strata); used when this
        # obligation is refuted, so that one known deviation does not mask everything else
        self.refine = None


# Solver queries run in SPAWNED workers: each worker rebuilds the (deterministic) list of
# obligations of a `plan` from the repo tree itself and is then sent only indices.
#   plan = (family, refine_indices or None);  family in PLAN_BUILDERS
_plan_cache: Dict[tuple, List["RxOb"]] = {}


def build_plan(plan) -> List["RxOb"]:
    if plan not in _plan_cache:
        family, refine = plan
        obs = PLAN_BUILDERS[family](ctx())
        if refine is not None:
            obs = [x for i in refine for x in obs[i].refine()]
        _plan_cache[plan] = obs
    return _plan_cache[plan]


def _solve_by_plan(item):
    plan, oi, qi, timeout_ms, confirm_ms = item
    lits = build_plan(plan)[oi].queries[qi][1]
    return rx.solve(lits, timeout_ms, confirm_ms)


_solver_pool: Optional[rx.Pool] = None


def solver_pool() -> rx.Pool:
    global _solver_pool
    if _solver_pool is None:
        import atexit
        _solver_pool = rx.Pool(_solve_by_plan, PROCS, "spawn")
        atexit.register(_solver_pool.close)
    return _solver_pool


def run_obs(plan, tier: str) -> Tuple[List["RxOb"], List[Ob], float]:
    obs = build_plan(plan)
    tmo = TIMEOUT_MS[tier]
    items, where = [], []
    for oi, o in enumerate(obs):
        if o.pre_status is None:
            for qi in range(len(o.queries)):
                items.append((plan, oi, qi, tmo, CONFIRM_MS[tier]))
                where.append((oi, qi))
    res = solver_pool().map(items, hard_timeout_s=3 * tmo / 1000 + 30)
    # a time-out on a busy machine is not a verdict: queries left unknown are asked again with six times the budget
    again = [k for k, r in enumerate(res) if r.get("status") == "unknown"]
    if again:
        items2 = [(items[k][0], items[k][1], items[k][2], 6 * tmo, 6 * CONFIRM_MS[tier]) for k in again]
        res2 = solver_pool().map(items2, hard_timeout_s=18 * tmo / 1000 + 60)
        for k, r in zip(again, res2):
            if r.get("status") != "unknown":
                r["trail"] = list(r.get("trail", [])) + ["(second attempt with 6x budget)"]
                res[k] = r
    per: Dict[int, List[Tuple[int, dict]]] = {}
    for (oi, qi), r in zip(where, res):
        per.setdefault(oi, []).append((qi, r))
    out, solver_time = [], 0.0
    for oi, o in enumerate(obs):
        if o.pre_status is not None:
            st, detail = o.pre_status
            out.append(Ob(o.name, st, o.backend, 0.0, detail, None, o.functions, False, o.sample))
            continue
        status, detail, replay, t = DISCHARGED, [], None, 0.0
        sample = o.sample
        backend = o.backend
        for qi, r in sorted(per.get(oi, [])):
            label = o.queries[qi][0]
            t += r.get("time_s", 0.0)
            detail.append(f"[{label}] {r['status']} ({'; '.join(r['trail'])})")
            if r.get("by") in ("cvc5", "derivatives"):
                backend = "RX/" + r["by"]
            if r["status"] == "sat" and status != REFUTED:
                w = r["witness"]
                try:
                    fails, text = o.validate(label, w)
                except Exception as e:  # validation itself could not run
                    fails, text = False, f"concrete validation raised {e!r}"
                if fails:
                    status = REFUTED
                    detail.append(f"  witness {show(w)}: {text}")
                    replay = o.replay(label, w)
                    sample = f"{o.sample}; witness {show(w)} ({label})"
                else:
                    status = UNDECIDED
                    detail.append(f"  solver model {show(w)} did NOT validate concretely: {text}")
            elif r["status"] == "unknown" and status == DISCHARGED:
                status = UNDECIDED
        if status == UNDECIDED:
            detail.insert(0, "undecided: solver unknown/timeout or unvalidated model")
        solver_time += t
        out.append(Ob(o.name, status, backend, round(t, 3), "\n".join(detail), replay,
                      o.functions, False, sample))
    return obs, out, solver_time


def run_obs_refining(family: str, tier: str) -> Tuple[List[Ob], float]:
    """run_obs, then every refuted obligation that has strata is REPLACED by its strata
    (whose conjunction it is); the strata are decided in a second batch."""
    obs, out, t = run_obs((family, None), tier)
    idx = tuple(i for i, o in enumerate(obs) if o.refine and out[i].status == REFUTED)
    if not idx:
        return out, t
    flat, out2, t2 = run_obs((family, idx), tier)
    repl, k = {}, 0
    for i in idx:
        n = len(obs[i].refine())
        repl[i] = out2[k:k + n]
        for r in repl[i]:
            r.time_s += out[i].time_s / n
        k += n
    final: List[Ob] = []
    for i, r in enumerate(out):
        final += repl.get(i, [r])
    return final, t + t2


def undecided_ob(name, functions, why, sample=None, backend="RX/z3") -> RxOb:
    o = RxOb(name, functions, [], None, None, sample, backend)
    o.pre_status = (UNDECIDED, why)
    return o


def rule_fn(n: str) -> str:
    return f"c_lexer._regex_rules[{n}]"


# ----------------------------------------------------------------------------------------
# C10 (1): effective language of each literal rule == reference language
# ----------------------------------------------------------------------------------------
# "The lexer returns w as ONE token of type T" (text = exactly w) means, in the model:
#     w in full_T   and   no earlier rule matches any prefix of w          (Eff_T)
# (R2: an earlier matching rule would be selected instead; R4: with w in full_T the longest
# match of T on the text w is w itself; no fixed token is longer than the whole text).
# Obligation, per stratum X of `strata()`:   Eff_T & X  ==  Ref_T & X,   as three queries
#   sound     full_T & not pref_e (all e < T) & not Ref_T & X          is empty
#   complete  Ref_T & not full_T & X                                    is empty
#   shadow    Ref_T & (pref_e1 | pref_e2 | ...) & X                     is empty
# plus, once per rule, `C10/lang-context/T`: graph_T == full_T MARK SIGMA*  (what T matches
# does not depend on the text that follows, so "the language of T" is well defined).
LITERAL_TYPES = [
    "INT_CONST_DEC", "INT_CONST_OCT", "INT_CONST_HEX", "INT_CONST_BIN", "FLOAT_CONST",
    "HEX_FLOAT_CONST", "CHAR_CONST", "WCHAR_CONST", "U8CHAR_CONST", "U16CHAR_CONST",
    "U32CHAR_CONST", "INT_CONST_CHAR", "STRING_LITERAL", "WSTRING_LITERAL",
    "U8STRING_LITERAL", "U16STRING_LITERAL", "U32STRING_LITERAL", "ID",
]


def _lexer_returns_single(T: str, w: str) -> Tuple[bool, str]:
    """Does the REAL lexer return exactly one token (T, w) and no error on the text w?"""
    toks, errors = real()["lex_all"](w)
    kw = ctx().L._keyword_map
    if T == "ID":
        type_ok = len(toks) == 1 and (toks[0][0] in ("ID", "TYPEID") or toks[0][0] == kw.get(w))
    else:
        type_ok = len(toks) == 1 and toks[0][0] == T
    got = type_ok and toks[0][1] == w and not errors
    return got, f"real lexer on {show(w)}: tokens={toks!r} errors={[e[0] for e in errors]!r}"


def _lang_replay(T: str, w: str, ref_says: bool) -> str:
    return REPLAY_PRELUDE + f'''
w = {w!r}
T = {T!r}
REFERENCE_SAYS_WELL_FORMED = {ref_says!r}   # spec/lexical.py REF[T] on w
toks, errors = lex_all(w)
kw = c_lexer._keyword_map
if T == "ID":
    type_ok = len(toks) == 1 and (toks[0][0] in ("ID", "TYPEID") or toks[0][0] == kw.get(w))
else:
    type_ok = len(toks) == 1 and toks[0][0] == T
lexer_returns = bool(type_ok and toks[0][1] == w and not errors)
print("text", ascii(w), "tokens", toks, "errors", errors)
print("reference: well-formed", T, "=", REFERENCE_SAYS_WELL_FORMED, "; lexer returns exactly one", T, "=", lexer_returns)
print("REPRODUCED" if lexer_returns != REFERENCE_SAYS_WELL_FORMED else "NOT-REPRODUCED")
'''


def lang_obs(c: Ctx) -> List[RxOb]:
    obs: List[RxOb] = []
    for T in LITERAL_TYPES:
        fn = [rule_fn(T)]
        if T not in c.index:
            obs.append(undecided_ob(f"C10/lang/{T}/core", fn, f"no rule with tok_type {T} in _regex_rules"))
            continue
        if T not in S.REF:
            obs.append(undecided_ob(f"C10/lang/{T}/core", fn, f"no reference language for {T}"))
            continue
        earlier = c.names[: c.index[T]]
        bad = c.ok(T, *earlier)
        if bad:
            continue  # handled by the bounded fall-back (lang_bounded_obs)
        full, ref = c.lang("full", T), S.REF[T]
        refd = rx.Dfa(ref)

        def validate(label, w, T=T, refd=refd):
            ref_says = refd.accepts(w)
            got, text = _lexer_returns_single(T, w)
            return got != ref_says, f"reference says well-formed {T}: {ref_says}; {text}"

        def replay(label, w, T=T, refd=refd):
            return _lang_replay(T, w, refd.accepts(w))

        g = c.lang("graph", T)
        f_marked = rx.cat(rx.inter(full, rx.SIGMA_STAR), rx.MARKCH, rx.SIGMA_STAR)

        def validate_ctx(label, w, T=T):
            u, _, v = w.partition(chr(rx.MARK))
            ends_in_ctx = real()["match_ends"](c.pattern[T], u + v)
            alone = re.compile(c.pattern[T]).fullmatch(u) is not None
            return (len(u) in ends_in_ctx) != alone, (
                f"rule {T} matches {show(u)} alone: {alone}; followed by {show(v)}: {len(u) in ends_in_ctx}")

        def replay_ctx(label, w, T=T):
            u, _, v = w.partition(chr(rx.MARK))
            return REPLAY_PRELUDE + f'''
u, v, T = {u!r}, {v!r}, {T!r}
alone = re.compile(rule_pattern(T)).fullmatch(u) is not None
in_ctx = len(u) in match_ends(rule_pattern(T), u + v)
print("rule", T, "matches", ascii(u), "alone:", alone, "; when followed by", ascii(v), ":", in_ctx)
print("REPRODUCED" if alone != in_ctx else "NOT-REPRODUCED")
'''
        obs.append(RxOb(
            f"C10/lang-context/{T}", fn,
            [("context-dependent-match", [(g, True), (f_marked, False)]),
             ("context-dependent-nonmatch", [(f_marked, True), (g, False)])],
            validate_ctx, replay_ctx, f"what {T} matches is independent of the following text"))
        def make(sname, slits, T=T, full=full, ref=ref, earlier=earlier, validate=validate, replay=replay, fn=fn):
            qs = [("sound: lexer returns it, reference rejects it",
                   [(full, True)] + [(c.lang("pref", e), False) for e in earlier] + [(ref, False)] + slits),
                  ("complete: reference accepts it, rule does not match it",
                   [(ref, True), (full, False)] + slits)]
            if earlier:
                qs.append(("shadow: reference accepts it, an earlier rule matches a prefix",
                           [(ref, True), (rx.alt(*[c.lang("pref", e) for e in earlier]), True)] + slits))
            if sname is None:
                return RxOb(f"C10/lang/{T}", fn, qs, validate, replay,
                            f"Eff({T}) == spec.lexical.REF[{T}]")
            return RxOb(f"C10/lang/{T}/{sname}", fn, qs, validate, replay,
                        f"Eff({T}) == spec.lexical.REF[{T}] on stratum '{sname}'")

        ob = make(None, [])
        ob.refine = lambda make=make: [make(sn, sl) for sn, sl in strata().items()]
        obs.append(ob)
    return obs


# ----------------------------------------------------------------------------------------
# C10 (2): error coverage
# ----------------------------------------------------------------------------------------
# For a malformed-literal kind with language B of whole remaining texts (spec.lexical.BAD):
# the lexer's step at the start of every t in B must be "report through an ERROR rule".
# In the model that is:  the rule selected by the master alternation is an ERROR rule, and
# no fixed token is longer than its match.  Equivalent formulation used (sound + complete):
#   /reported   B  is a subset of  U_{e ERROR} pref_e            (some ERROR rule matches)
#   /not-token  for every TOKEN/ID rule j:  B & pref_j & not U_{e ERROR, e<j} pref_e = {}
#               (if j matches, an earlier ERROR rule matches too, so j is never selected;
#                conversely if the selected rule k were not ERROR, k itself violates this)
#   /fixed      B & f SIGMA* & not U_{e ERROR} at_or_beyond_e-at-|f| = {} for every fixed
#               literal f -- stated on marked texts: no t = f v in B whose ERROR matches are
#               all shorter than |f|.  (Only '/' can start both a fixed token and a B text.)
# "At least as long as any TOKEN rule match": the selected ERROR rule e precedes every TOKEN
# rule j that also matches (by /not-token), and C10/priority/e/j shows j's match is not longer.
def _first_step_is_error_rule(t: str) -> Tuple[bool, str]:
    tok, errors, pos = real()["first_step"](t)
    by_rule = tok is None and len(errors) >= 1 and not errors[0][0].startswith("Illegal character")
    return by_rule, f"real lexer first step on {show(t)}: token={tok!r} errors={[e[0] for e in errors]!r} consumed={pos}"


def _error_replay(kind: str, t: str) -> str:
    return REPLAY_PRELUDE + f'''
t = {t!r}   # malformed literal of kind {kind!r} (spec.lexical.BAD), then arbitrary text
tok, errors, consumed = first_step(t)
print("first lexer step on", ascii(t), "-> token", tok, "errors", errors, "consumed", consumed)
reported_by_error_rule = tok is None and len(errors) >= 1 and not errors[0][0].startswith("Illegal character")
print("all tokens/errors:", lex_all(t))
print("REPRODUCED" if not reported_by_error_rule else "NOT-REPRODUCED")
'''


def error_obs(c: Ctx) -> List[RxOb]:
    obs: List[RxOb] = []
    err = [n for n in c.names if c.action[n] == "ERROR"]
    fixed = list(c.L._fixed_tokens)
    for kind, B in S.BAD.items():
        name = f"C10/error-coverage/{kind}"
        bad = c.ok(*c.names)
        if bad:
            obs.append(undecided_ob(name + "/reported", ["c_lexer._regex_rules"], bad))
            continue
        bd = rx.Dfa(B)

        def validate(label, t, bd=bd):
            t = t.replace(chr(rx.MARK), "")
            ok, text = _first_step_is_error_rule(t)
            return bd.accepts(t) and not ok, f"in BAD language: {bd.accepts(t)}; {text}"

        def replay(label, t, kind=kind):
            return _error_replay(kind, t.replace(chr(rx.MARK), ""))

        fns = [rule_fn(e) for e in err]
        # stratified like the language obligations when refuted (see strata(), RxOb.refine)
        def make_reported(sname, slits, name=name, B=B, fns=fns, validate=validate, replay=replay, kind=kind):
            sn = name if sname is None else f"{name}/{sname}"
            return RxOb(sn + "/reported", fns,
                        [("no ERROR rule matches",
                          [(B, True)] + [(c.lang("pref", e), False) for e in err] + slits)],
                        validate, replay,
                        f"every '{kind}' text{'' if sname is None else ' (' + sname + ')'} has a prefix matched by an ERROR rule")

        def make_not_token(sname, slits, j, name=name, B=B, validate=validate, replay=replay, kind=kind):
            sn = name if sname is None else f"{name}/{sname}"
            before = [e for e in err if c.index[e] < c.index[j]]
            return RxOb(f"{sn}/not-token/{j}", [rule_fn(j)] + [rule_fn(e) for e in before],
                        [(f"{j} matches and no earlier ERROR rule does",
                          [(B, True), (c.lang("pref", j), True)]
                          + [(c.lang("pref", e), False) for e in before] + slits)],
                        validate, replay,
                        f"'{kind}' text{'' if sname is None else ' (' + sname + ')'} is never lexed by {j}")

        ob = make_reported(None, [])
        ob.refine = lambda mk=make_reported: [mk(sn, sl) for sn, sl in strata().items()]
        obs.append(ob)
        for j in c.names:
            if c.action[j] == "ERROR":
                continue
            ob = make_not_token(None, [], j)
            ob.refine = lambda mk=make_not_token, j=j: [mk(sn, sl, j) for sn, sl in strata().items()]
            obs.append(ob)
        # fixed tokens: t = f v (marker after f), t in B, no ERROR rule matches >= |f|
        qs = []
        for ft in fixed:
            f = ft.literal
            if bd.dead(bd.run(f)):
                continue  # no text of B starts with this literal
            # { f MARK v : f v in B }: the marker-insensitive copy of B, marker placed after f
            Bm = rx.inter(rx.cat(rx.lit(f), rx.MARKCH, rx.SIGMA_STAR), _skip_mark(B))
            qs.append((f"fixed token {f!r} longer than every ERROR match",
                       [(Bm, True)] + [(c.lang("at_or_beyond", e), False) for e in err]))
        if qs:
            obs.append(RxOb(name + "/fixed", ["c_lexer._fixed_tokens"] + fns, qs, validate, replay,
                            f"no fixed token outruns the ERROR match on '{kind}' texts"))
        M = getattr(S, "BAD_WHOLE", {}).get(kind)
        if M is not None:
            # t = m MARK v with m a whole malformed literal: some ERROR rule must match a prefix reaching the marker
            Mm = rx.cat(rx.inter(M, rx.SIGMA_STAR), rx.MARKCH, rx.SIGMA_STAR)

            def validate_whole(label, t):
                m, _, v = t.partition(chr(rx.MARK))
                tok, errors, pos = real()["first_step"](m + v)
                return pos < len(m), f"real lexer first step on {show(m + v)}: token={tok!r} errors={[e[0] for e in errors]!r} consumed={pos} of the {len(m)} characters of the malformed literal"

            def replay_whole(label, t, kind=kind):
                m, _, v = t.partition(chr(rx.MARK))
                return REPLAY_PRELUDE + f'''
m, v = {m!r}, {v!r}   # m: a whole malformed literal of kind {kind!r}; v: what follows
tok, errors, consumed = first_step(m + v)
print("first lexer step on", ascii(m + v), "-> token", tok, "errors", errors, "consumed", consumed, "of", len(m))
print("all tokens/errors:", lex_all(m + v))
print("REPRODUCED" if consumed < len(m) else "NOT-REPRODUCED")
'''
            obs.append(RxOb(name + "/consumed-whole", fns,
                            [("no ERROR rule reaches the end of the malformed literal",
                              [(Mm, True)] + [(c.lang("at_or_beyond", e), False) for e in err])],
                            validate_whole, replay_whole,
                            f"the ERROR match on a '{kind}' text covers the whole malformed literal (it is not split into an error and further tokens)"))
    return obs


def _skip_mark(t):
    """Copy of the z3 regex term t in which the marker character may appear anywhere and is
    ignored:  L' = { w with markers inserted : w in L(t) }  -- structural, exact for
    concat/union/star/range/literal; for complement/intersection the operands are first made
    marker-insensitive and complement is taken relative to all marked strings, which is exact
    because marker-insensitive languages are closed under these operations."""
    m = rx.star(rx.MARKCH)
    k = t.decl().kind()
    ch = [t.arg(i) for i in range(t.num_args())]
    if k == z3.Z3_OP_SEQ_TO_RE:
        s = rx.z3_decode(t.arg(0))
        return rx.cat(m, *[rx.cat(rx.lit(x), m) for x in s])
    if k == z3.Z3_OP_RE_RANGE:
        lo, hi = ord(rx.z3_decode(t.arg(0))), ord(rx.z3_decode(t.arg(1)))
        return rx.cat(m, rx.cls(rx.cs_inter(((lo, hi),), rx.CS_SIGMA)), m)
    if k == z3.Z3_OP_RE_FULL_CHAR_SET:
        return rx.cat(m, rx.SIGMA, m)
    if k == z3.Z3_OP_RE_FULL_SET:
        return rx.ANYSTAR
    if k == z3.Z3_OP_RE_EMPTY_SET:
        return rx.EMPTY
    if k == z3.Z3_OP_RE_UNION:
        return rx.alt(*[_skip_mark(x) for x in ch])
    if k == z3.Z3_OP_RE_INTERSECT:
        return rx.inter(*[_skip_mark(x) for x in ch])
    if k == z3.Z3_OP_RE_CONCAT:
        return rx.cat(*[_skip_mark(x) for x in ch])
    if k == z3.Z3_OP_RE_STAR:
        return rx.cat(m, rx.star(_skip_mark(ch[0])))
    if k == z3.Z3_OP_RE_PLUS:
        return rx.plus(_skip_mark(ch[0]))
    if k == z3.Z3_OP_RE_OPTION:
        return rx.alt(m, _skip_mark(ch[0]))
    if k == z3.Z3_OP_RE_COMPLEMENT:
        return rx.comp(_skip_mark(ch[0]))
    raise rx.Untranslatable(f"_skip_mark: {t.decl().name()}")


# ----------------------------------------------------------------------------------------
# C10 (3): rule priority agrees with longest match
# ----------------------------------------------------------------------------------------
# For every ordered pair (earlier rule i, later rule j): there is no text t = u v such that
#   rule j matches u (in the context v), rule i matches some prefix of t, and
#   rule i matches no prefix of length >= |u|.
# On marked texts u MARK v this is exactly
#   graph_j  &  any_marked_i  &  not at_or_beyond_i   =  {}
# (contexts -- lookaheads, '$' -- are exact, see rx.Translator).  If it holds for all pairs,
# "first alternative that matches" (what `re` does, R2) never yields a shorter token than
# some later rule would have: first-match and longest-match agree.  Pairs whose prefix
# languages are disjoint hold trivially; the query is still emitted and decided.
def priority_obs(c: Ctx) -> List[RxOb]:
    obs: List[RxOb] = []
    for i, j in itertools.combinations(range(len(c.names)), 2):
        ni, nj = c.names[i], c.names[j]
        # the name is independent of the rule order (reordering two non-overlapping rules must
        # not rename obligations); which rule is the earlier one is stated in the sample
        name = "C10/priority/" + "/".join(sorted((ni, nj)))
        fn = [rule_fn(ni), rule_fn(nj)]
        bad = c.ok(ni, nj)
        if bad:
            obs.append(undecided_ob(name, fn, bad))
            continue

        def validate(label, w, ni=ni, nj=nj):
            u, _, v = w.partition(chr(rx.MARK))
            ei = real()["match_ends"](c.pattern[ni], u + v)
            ej = real()["match_ends"](c.pattern[nj], u + v)
            fails = len(u) in ej and bool(ei) and max(ei) < len(u)
            tok, errors, pos = real()["first_step"](u + v)
            return fails, (f"on {show(u + v)}: {nj} matches {len(u)} chars, earlier rule {ni} matches only "
                           f"{ei}; real lexer first step: token={tok!r} errors={[e[0] for e in errors]!r} consumed={pos}")

        def replay(label, w, ni=ni, nj=nj):
            u, _, v = w.partition(chr(rx.MARK))
            return REPLAY_PRELUDE + f'''
t, n, I, J = {u + v!r}, {len(u)}, {ni!r}, {nj!r}
ei, ej = match_ends(rule_pattern(I), t), match_ends(rule_pattern(J), t)
tok, errors, consumed = first_step(t)
print("text", ascii(t), ":", I, "can match lengths", ei, ";", J, "can match lengths", ej)
print("real lexer first step: token", tok, "errors", errors, "consumed", consumed)
m = c_lexer._regex_master.match(t)
shorter = n in ej and ei and max(ei) < n and m is not None and m.end() < n
print("REPRODUCED" if shorter else "NOT-REPRODUCED")
'''
        q = [(c.lang("graph", nj), True), (c.lang("any_marked", ni), True),
             (c.lang("at_or_beyond", ni), False)]
        obs.append(RxOb(name, fn, [(f"{nj} matches longer than {ni}", q)], validate, replay,
                        f"earlier {ni} vs later {nj}"))
    return obs


# ----------------------------------------------------------------------------------------
# C10 (4): bounded cross-validation of the assumed `re` contract R1-R4
# ----------------------------------------------------------------------------------------
# All texts up to length N over a class alphabet go through the REAL c_lexer._regex_master;
# the prediction comes from the translated languages evaluated concretely (rx.Dfa on the
# marked graph languages):  ends_k(t) for every rule k.  Checked per text:
#   R1  m is None  <=>  no rule has a match;     R2  m.lastgroup is the first rule with one;
#   R3  m.end() is one of that rule's possible ends;   R4  it is the largest.
# A disagreement on R1-R3 is reported as UNDECIDED (a translator bug or a broken assumption
# makes the RX proofs unreliable; it is not by itself a lexer defect).  A disagreement on R4
# that the real `re` itself confirms (the same rule CAN match a longer prefix of the same
# text, but the backtracking order returns a shorter one) is a concrete failure of maximal
# munch in the real lexer and is reported REFUTED with a replay.  Bounded: never a proof.
CONTRACT_ALPHABET = ["0", "1", "8", "a", "x", "L", "u", "e", ".", "+", "'", '"', "\\", "\n"]
CONTRACT_ALPHABET_QUICK = CONTRACT_ALPHABET + ["/", "*", "b", "p", "l", "_", " ", "٣", "%"]


def _contract_task(item):
    prefix, alphabet, maxlen = item
    c = ctx()
    master = c.L._regex_master
    dfas = [rx.Dfa(c.lang("graph", n)) for n in c.names]
    mark = chr(rx.MARK)
    nrules = len(dfas)
    stats = dict(texts=0, matched=0)
    problems: List[str] = []
    r4: List[tuple] = []

    def check(t, st0, marked):
        # ends per rule: marker positions n < len(t) from `marked`, n == len(t) from st0
        stats["texts"] += 1
        sel, ends_sel = None, None
        for k in range(nrules):
            d = dfas[k]
            ends = [n for n, s in marked[k] if d.nul[s]]
            if st0[k] is not None and d.nul[d.step(st0[k], mark)]:
                ends.append(len(t))
            if ends:
                sel, ends_sel = k, ends
                break
        m = master.match(t)
        if m is None:
            if sel is not None:
                problems.append(f"R1: {t!r}: re finds no match, model says {c.names[sel]} matches {ends_sel}")
            return
        stats["matched"] += 1
        if sel is None:
            problems.append(f"R1: {t!r}: re matches {m.lastgroup} {m.end()}, model says nothing matches")
        elif m.lastgroup != c.names[sel]:
            problems.append(f"R2: {t!r}: re selects {m.lastgroup}, model says first matching rule is {c.names[sel]}")
        elif m.end() not in ends_sel:
            problems.append(f"R3: {t!r}: re matches {m.end()} chars with {m.lastgroup}, model ends {ends_sel}")
        elif m.end() != max(ends_sel):
            problems.append(f"R4: {t!r}: re returns {m.end()} chars with {m.lastgroup}, longest possible is {max(ends_sel)}")
            r4.append((t, m.lastgroup, m.end(), max(ends_sel)))

    def rec(t, st0, marked):
        check(t, st0, marked)
        if len(t) >= maxlen or len(problems) > 20:
            return
        for ch in alphabet:
            st1, mk1, alive = [], [], False
            for k in range(nrules):
                d = dfas[k]
                s0 = st0[k]
                lst = []
                for n, s in marked[k]:
                    s2 = d.step(s, ch)
                    if not d.dead(s2):
                        lst.append((n, s2))
                if s0 is not None:
                    s2 = d.step(d.step(s0, mark), ch)  # marker at position len(t)
                    if not d.dead(s2):
                        lst.append((len(t), s2))
                    s0 = d.step(s0, ch)
                    if d.dead(s0):
                        s0 = None
                st1.append(s0)
                mk1.append(lst)
            rec(t + ch, st1, mk1)

    st0 = [d.root for d in dfas]
    marked = [[] for _ in dfas]
    # replay the prefix
    t = ""
    for ch in prefix:
        st1, mk1 = [], []
        for k in range(nrules):
            d = dfas[k]
            lst = [(n, d.step(s, ch)) for n, s in marked[k]]
            s0 = st0[k]
            if s0 is not None:
                lst.append((len(t), d.step(d.step(s0, mark), ch)))
                s0 = d.step(s0, ch)
            st1.append(s0)
            mk1.append([(n, s) for n, s in lst if not d.dead(s)])
        st0, marked, t = st1, mk1, t + ch
    rec(t, st0, marked)
    return dict(status="done", texts=stats["texts"], matched=stats["matched"], problems=problems[:5], r4=r4[:3])


def contract_obs(c: Ctx, tier: str) -> Tuple[List[Ob], dict]:
    name = "C10/bounded/re-contract"
    fn = ["c_lexer._regex_master", "c_lexer._regex_rules"]
    bad = c.ok(*c.names) or c.master_ok
    if bad:
        return [Ob(name, UNDECIDED, "RX/enumeration", 0.0, bad, None, fn, True, None)], {}
    alphabet, maxlen = (CONTRACT_ALPHABET, 6) if tier == "thorough" else (CONTRACT_ALPHABET_QUICK, 4)
    t0 = time.time()
    items = [("", alphabet, 1)] + [(a + b, alphabet, maxlen) for a in alphabet for b in alphabet]
    res = rx.run_tasks(_contract_task, items, PROCS, hard_timeout_s=900)
    texts = sum(r.get("texts", 0) for r in res)
    matched = sum(r.get("matched", 0) for r in res)
    problems = [p for r in res for p in r.get("problems", [])]
    crashed = [r for r in res if r.get("status") != "done"]
    replay, sample = None, None
    detail = (f"{texts} texts (all strings of length <= {maxlen} over {len(alphabet)} class representatives "
              f"{''.join(alphabet)!r}), {matched} with a match; R1-R4 compared with the translated languages")
    if crashed:
        st, detail = UNDECIDED, detail + f"\n{len(crashed)} enumeration tasks did not finish: {crashed[0].get('trail')}"
    elif problems:
        st, detail = UNDECIDED, detail + "\nASSUMPTION NOT VALIDATED:\n" + "\n".join(problems[:10])
        for t, k, got, longest in [x for r in res for x in r.get("r4", [])]:
            ends = real()["match_ends"](c.pattern[k], t)
            m = c.L._regex_master.match(t)
            if m is not None and m.lastgroup == k and m.end() == got and ends and max(ends) > got:
                st = REFUTED
                sample = f"text {show(t)}: rule {k} returns {got} characters although it can match {max(ends)}"
                detail += f"\nconfirmed with the real re: {sample}"
                replay = REPLAY_PRELUDE + f'''
t, K = {t!r}, {k!r}
m = c_lexer._regex_master.match(t)
ends = match_ends(rule_pattern(K), t)
print("text", ascii(t), ": master regex returns", m.lastgroup, m.end(), "; rule", K, "can match lengths", ends)
print("lexer:", lex_all(t))
print("REPRODUCED" if m.lastgroup == K and ends and max(ends) > m.end() else "NOT-REPRODUCED")
'''
                break
    else:
        st = DISCHARGED
    ob = Ob(name, st, "RX/enumeration", round(time.time() - t0, 3), detail, replay, fn, True,
            sample or f"length <= {maxlen}, {len(alphabet)} characters, {texts} texts")
    return [ob], dict(re_contract=dict(texts=texts, maxlen=maxlen, alphabet="".join(alphabet)))


# ----------------------------------------------------------------------------------------
# bounded fall-back for literal rules that (or whose earlier rules) cannot be translated
# ----------------------------------------------------------------------------------------
def _lang_bounded_task(item):
    T, prefix, alphabet, maxlen = item
    c = ctx()
    master = c.L._regex_master
    d = rx.Dfa(S.REF[T])
    n, bad = 0, []

    def rec(t, st):
        nonlocal n
        n += 1
        m = master.match(t) if t else None
        real_says = m is not None and m.lastgroup == T and m.end() == len(t)
        if real_says != d.nul[st] and len(bad) < 3:
            bad.append(t)
        if len(t) < maxlen:
            for ch in alphabet:
                rec(t + ch, d.step(st, ch))

    rec(prefix, d.run(prefix))
    return dict(status="done", n=n, bad=bad)


def lang_bounded_obs(c: Ctx, tier: str) -> List[Ob]:
    out: List[Ob] = []
    maxlen = 7 if tier == "thorough" else 5
    alphabet = CONTRACT_ALPHABET
    for T in LITERAL_TYPES:
        if T not in c.index or T not in S.REF:
            continue
        why = c.ok(T, *c.names[: c.index[T]])
        if not why:
            continue
        t0 = time.time()
        items = [(T, "", alphabet, 1)] + [(T, a + b, alphabet, maxlen) for a in alphabet for b in alphabet]
        res = rx.run_tasks(_lang_bounded_task, items, PROCS, hard_timeout_s=1800)
        n = sum(r.get("n", 0) for r in res)
        bad = [w for r in res for w in r.get("bad", [])]
        detail = (f"{why}\nBOUNDED fall-back: {n} strings of length <= {maxlen} over {''.join(alphabet)!r} "
                  f"through the real _regex_master, compared with spec.lexical.REF[{T}]")
        if any(r.get("status") != "done" for r in res):
            st, replay, sample = UNDECIDED, None, None
        elif bad:
            w = min(bad, key=lambda x: (len(x), x))
            refd = rx.Dfa(S.REF[T])
            got, text = _lexer_returns_single(T, w)
            st = REFUTED if got != refd.accepts(w) else UNDECIDED
            detail += f"\nwitness {show(w)}: reference says {refd.accepts(w)}; {text}"
            replay, sample = _lang_replay(T, w, refd.accepts(w)), f"witness {show(w)}"
        else:
            st, replay, sample = DISCHARGED, None, f"{n} strings, length <= {maxlen}"
        out.append(Ob(f"C10/lang/{T}/bounded", st, "RX/enumeration", round(time.time() - t0, 3), detail,
                      replay, [rule_fn(T)], True, sample))
    return out


# ----------------------------------------------------------------------------------------
# the verified text: module-level data of c_lexer.py, located with `ast` on this run
# ----------------------------------------------------------------------------------------
DATA_ROOTS = ["_regex_rules", "_regex_master", "_regex_actions", "_regex_pattern_parts",
              "_fixed_tokens", "_fixed_tokens_by_first", "_keywords", "_keyword_map",
              "_line_pattern", "_pragma_pattern"]


def module_data_functions() -> List[FuncInfo]:
    src = core.Source.get(LEXER_FILE)
    assigns: Dict[str, ast.AST] = {}
    loops: List[ast.AST] = []
    for st in src.tree.body:
        if isinstance(st, ast.Assign):
            for t in st.targets:
                if isinstance(t, ast.Name):
                    assigns.setdefault(t.id, st)
        elif isinstance(st, ast.AnnAssign) and isinstance(st.target, ast.Name):
            assigns.setdefault(st.target.id, st)
        elif isinstance(st, ast.For):
            loops.append(st)
    want, todo = [], [r for r in DATA_ROOTS if r in assigns]
    while todo:
        n = todo.pop(0)
        if n in want:
            continue
        want.append(n)
        for x in ast.walk(assigns[n]):
            if isinstance(x, ast.Name) and x.id in assigns and x.id not in want:
                todo.append(x.id)
    out: List[FuncInfo] = []

    def info(qual, node):
        seg = "\n".join(src.lines[node.lineno - 1: node.end_lineno])
        return FuncInfo(qual, LEXER_FILE, node.lineno, node.end_lineno,
                        hashlib.sha256(seg.encode()).hexdigest(), node, seg)

    for n in sorted(want, key=lambda n: assigns[n].lineno):
        out.append(info(f"c_lexer.{n}", assigns[n]))
    for lp in loops:
        names = {x.id for x in ast.walk(lp) if isinstance(x, ast.Name)}
        if names & set(want):
            out.append(info(f"c_lexer.<module for-loop at line {lp.lineno}>", lp))
    for q in ("CLexer._match_token", "CLexer.token"):
        if src.has(q):
            f = src.func(q)
            f.qualname = "c_lexer." + q
            out.append(f)
    return out


def trusted_base(c: Ctx) -> List[str]:
    return [
        "re contract (assumed; cross-validated only by the bounded obligation C10/bounded/re-contract): "
        + " | ".join(RE_CONTRACT),
        "z3 4.x/5.x sequence+regex solver (z3-solver %s) for `unsat` answers; cvc5 --strings-exp as fall-back"
        % z3.get_version_string(),
        "pyvc/rx.py derivative decision procedure (Brzozowski derivatives over z3 regex terms): runs on "
        "every query as a second opinion (a disagreement with z3 makes the query undecided) and decides "
        "the queries on which z3 answers unknown (backend RX/derivatives); sha256 " + core.file_sha("pyvc/rx.py"),
        "pyvc/rx.py translation sre -> z3 regex (continuation-passing; lookaheads and '$' exact, unbounded "
        "repeats by Arden's rule); sre constructs translated: " + "; ".join(rx.OPCODES_TRANSLATED)
        + f"; opcodes met in this tree: {', '.join(c.ops_seen)}; everything else raises Untranslatable",
        "CPython re._parser.parse as the reader of the pattern strings; \\d etc. taken from this "
        "interpreter's re over all code points (Python %d.%d)" % sys.version_info[:2],
        "spec/lexical.py (C99 6.4 transcription + documented extensions X1-X5), sha256 "
        + core.file_sha("spec/lexical.py"),
        "the model of CLexer._match_token stated at the top of pyvc/rx_obligations.py (selection of the "
        "first matching rule, longest match, fixed token only if strictly longer); its agreement with the "
        "code of _match_token is the business of the C09 SMT contracts, not of RX",
    ]


def assumptions(c: Ctx) -> List[str]:
    a = [
        "alphabet: texts range over the code points 0..0x2FFFE (z3 characters); code points above are "
        "covered by symmetry: " + ("CHECKED on this tree -- no character class of any rule distinguishes "
                                   "code points >= 0x2F000" if not c.generic_problem
                                   else "NOT established on this tree: " + c.generic_problem),
        "U+2FFFF is used as position marker in marked languages and therefore is not a text character in "
        "C10/priority, C10/lang-context and the /fixed obligations (same symmetry argument)",
        "C10/lang: 'the lexer returns w as one token T' is read on the text consisting of exactly w",
        "universal character names: only the grammar of 6.4.3 is encoded, not its value constraints",
        "_master_regex is the '|'-join of the named rule patterns in _regex_rules order: "
        + ("checked on this tree" if not c.master_ok else "FAILED: " + c.master_ok),
    ]
    for nm, st in c.aux_status.items():
        g = c.aux_generic.get(nm)
        a.append(f"auxiliary pattern c_lexer.{nm}: {st}" + (f" (note: {g})" if g else "")
                 + "; no obligation of RX is stated about it")
    return a


# ----------------------------------------------------------------------------------------
# entry point C10
# ----------------------------------------------------------------------------------------
def _base_result(c: Ctx) -> Result:
    r = Result()
    r.functions = module_data_functions()
    r.trusted_base = trusted_base(c)
    r.assumptions = assumptions(c)
    r.extra = dict(rx=dict(rules=len(c.names), untranslatable=c.untranslatable,
                           sre_opcodes_seen=c.ops_seen, repo=core.REPO))
    return r


def c10_obligations(tier: str = "quick") -> Result:
    c = ctx()
    res = _base_result(c)
    t0 = time.time()
    out, st = run_obs_refining("c10", tier)
    res.obs += out
    res.obs += lang_bounded_obs(c, tier)
    cobs, extra = contract_obs(c, tier)
    res.obs += cobs
    res.extra["rx"].update(extra)
    res.solver_time_s = st
    res.extra["rx"]["c10_wall_s"] = round(time.time() - t0, 2)
    return res


# ----------------------------------------------------------------------------------------
# C09: rule languages (RX) and finite tables (TB)
# ----------------------------------------------------------------------------------------
def _tb(name, ok: bool, detail: str, functions, sample, replay=None) -> Ob:
    return Ob(name, DISCHARGED if ok else REFUTED, "TB", 0.0, detail, None if ok else replay,
              functions, False, sample)


def _single_token_replay(text: str, want_type: Optional[str], what: str) -> str:
    return REPLAY_PRELUDE + f'''
text, want_type = {text!r}, {want_type!r}
toks, errors = lex_all(text)
print({what!r})
print("lexer on", ascii(text), "->", toks, errors)
ok = len(toks) == 1 and toks[0][1] == text and not errors and (want_type is None or toks[0][0] == want_type)
print("REPRODUCED" if not ok else "NOT-REPRODUCED")
'''


def c09_newline_nonempty_obs(c: Ctx) -> List[RxOb]:
    obs: List[RxOb] = []
    nl_in_u = rx.cat(rx.SIGMA_STAR, rx.lit("\n"), rx.SIGMA_STAR, rx.MARKCH, rx.SIGMA_STAR)
    empty_u = rx.cat(rx.MARKCH, rx.SIGMA_STAR)
    for n in c.names:
        fn = [rule_fn(n)]
        for kind, lang, applies in (("no-newline", nl_in_u, c.action[n] != "ERROR"),
                                    ("nonempty", empty_u, True)):
            if not applies:
                continue
            name = f"C09/rx/{kind}/{n}"
            bad = c.ok(n)
            if bad:
                obs.append(undecided_ob(name, fn, bad))
                continue

            def validate(label, w, n=n, kind=kind):
                u, _, v = w.partition(chr(rx.MARK))
                ends = real()["match_ends"](c.pattern[n], u + v)
                cond = ("\n" in u) if kind == "no-newline" else (u == "")
                return cond and len(u) in ends, f"rule {n} matches {show(u)} at the start of {show(u + v)}: {len(u) in ends}"

            def replay(label, w, n=n, kind=kind):
                u, _, v = w.partition(chr(rx.MARK))
                return REPLAY_PRELUDE + f'''
u, v, K, kind = {u!r}, {v!r}, {n!r}, {kind!r}
ends = match_ends(rule_pattern(K), u + v)
print("rule", K, "on", ascii(u + v), "can match lengths", ends, "; lexer:", lex_all(u + v))
cond = ("\\n" in u) if kind == "no-newline" else (u == "")
print("REPRODUCED" if cond and len(u) in ends else "NOT-REPRODUCED")
'''
            obs.append(RxOb(name, fn, [(kind, [(c.lang("graph", n), True), (lang, True)])], validate, replay,
                            f"rule {n}: " + ("no match contains a newline" if kind == "no-newline"
                                             else "no match is empty")))
    return obs


def c09_table_obs(c: Ctx) -> List[Ob]:
    L = c.L
    out: List[Ob] = []
    fixed = list(L._fixed_tokens)
    buckets = L._fixed_tokens_by_first
    FB = "c_lexer._fixed_tokens_by_first"
    lex_all = real()["lex_all"]

    def lexes_as_one(text, want_type=None):
        toks, errors = lex_all(text)
        ok = len(toks) == 1 and toks[0][1] == text and not errors and (want_type is None or toks[0][0] == want_type)
        return ok, f"lexer on {show(text)} -> {toks!r} {[e[0] for e in errors]!r}"

    # -- buckets ---------------------------------------------------------------------------
    badk = [(k, e.literal) for k, b in buckets.items() for e in b
            if not (isinstance(k, str) and len(k) == 1 and e.literal[:1] == k)]
    out.append(_tb("C09/rx/fixed-buckets/key-is-first-char", not badk,
                   f"{len(buckets)} buckets; offending (key, literal): {badk[:5]}", [FB], f"{len(buckets)} buckets",
                   _single_token_replay(badk[0][1], None, "bucket key is not the literal's first character") if badk else None))
    counts = {id(e): 0 for e in fixed}
    foreign = []
    for k, b in buckets.items():
        for e in b:
            if id(e) in counts:
                counts[id(e)] += 1
            elif e in fixed:
                counts[id(fixed[fixed.index(e)])] += 1
            else:
                foreign.append(e.literal)
    wrong = [e.literal for e in fixed if counts[id(e)] != 1]
    out.append(_tb("C09/rx/fixed-buckets/exactly-one-bucket", not wrong and not foreign,
                   f"{len(fixed)} fixed tokens; not in exactly one bucket: {wrong[:5]}; bucket entries that are not fixed tokens: {foreign[:5]}",
                   [FB, "c_lexer._fixed_tokens"], f"{len(fixed)} fixed tokens",
                   _single_token_replay((wrong + foreign)[0], None, "fixed token not in exactly one bucket") if wrong or foreign else None))
    order = [(a.literal, b.literal) for bk in buckets.values() for i, a in enumerate(bk) for b in bk[i + 1:]
             if b.literal != a.literal and b.literal.startswith(a.literal)]
    out.append(_tb("C09/rx/fixed-buckets/prefix-order", not order,
                   f"pairs (earlier literal, later literal) where the earlier one is a proper prefix of the later one: {order[:5]}",
                   [FB], "proper prefixes come later in every bucket",
                   _single_token_replay(order[0][1], None, f"{order[0][0]!r} precedes {order[0][1]!r} in its bucket") if order else None))
    lits = [e.literal for e in fixed]
    for p in S.PUNCTUATORS_EXPECTED:
        n = lits.count(p)
        ok, text = lexes_as_one(p) if n == 1 else (False, f"{n} fixed tokens with this literal")
        out.append(_tb(f"C09/rx/fixed-buckets/present/{p}", n == 1 and ok, text, ["c_lexer._fixed_tokens"],
                       f"C99 6.4.6 punctuator {p!r}", _single_token_replay(p, None, f"punctuator {p!r} must be one token")))
    extra = [l for l in lits if l not in S.PUNCTUATORS_EXPECTED]
    out.append(_tb("C09/rx/fixed-buckets/no-extra-literals", not extra,
                   f"fixed-token literals that are not C99 punctuators: {extra[:5]}", ["c_lexer._fixed_tokens"],
                   f"{len(lits)} literals", REPLAY_PRELUDE + f'''
extra = {extra!r}
toks, errors = lex_all(extra[0]) if extra else ([], [])
print("not a C99 punctuator:", extra, "lexer:", toks, errors)
print("REPRODUCED" if extra and len(toks) == 1 and not errors else "NOT-REPRODUCED")
'''))
    types = [e.tok_type for e in fixed]
    kwtypes = list(L._keyword_map.values())
    dup = sorted({t for t in types if types.count(t) > 1 or t in c.names or t in kwtypes or t in ("ID", "TYPEID")})
    out.append(_tb("C09/rx/fixed-buckets/distinct-token-types", not dup,
                   f"token types used twice (or clashing with a rule/keyword type): {dup[:5]}",
                   ["c_lexer._fixed_tokens"], f"{len(types)} token types", REPLAY_PRELUDE + f'''
dup = {dup!r}
clash = [(e.tok_type, e.literal) for e in c_lexer._fixed_tokens if e.tok_type in dup]
print("token types not distinct:", clash)
print("REPRODUCED" if clash else "NOT-REPRODUCED")
'''))
    # -- keywords ----------------------------------------------------------------------------
    KM = "c_lexer._keyword_map"
    km = L._keyword_map
    for kw in S.KEYWORDS_EXPECTED:
        t = km.get(kw)
        good = isinstance(t, str) and t not in ("ID", "TYPEID")
        ok, text = lexes_as_one(kw, t) if good else (False, f"_keyword_map.get({kw!r}) = {t!r}")
        out.append(_tb(f"C09/rx/keywords/present/{kw}", good and ok, text, [KM], f"keyword {kw}", REPLAY_PRELUDE + f'''
kw = {kw!r}
toks, errors = lex_all(kw)
print("lexer on", kw, "->", toks, errors, "; _keyword_map.get:", c_lexer._keyword_map.get(kw))
is_kw = len(toks) == 1 and toks[0][1] == kw and toks[0][0] not in ("ID", "TYPEID") and not errors
print("REPRODUCED" if not is_kw else "NOT-REPRODUCED")
'''))
    extra_k = [k for k in km if k not in S.KEYWORDS_EXPECTED]
    out.append(_tb("C09/rx/keywords/no-extra-keys", not extra_k,
                   f"keys outside C99 6.4.1 + documented C11/extension keywords: {extra_k[:5]}", [KM],
                   f"{len(km)} keys", REPLAY_PRELUDE + f'''
extra = {extra_k!r}
toks, errors = lex_all(extra[0]) if extra else ([], [])
print("not a keyword of the reference list:", extra, "lexer:", toks)
print("REPRODUCED" if extra and len(toks) == 1 and toks[0][0] not in ("ID", "TYPEID") else "NOT-REPRODUCED")
'''))
    vals = list(km.values())
    dupk = sorted({v for v in vals if vals.count(v) > 1})
    out.append(_tb("C09/rx/keywords/distinct-token-types", not dupk, f"keyword token types used twice: {dupk[:5]}",
                   [KM], f"{len(vals)} keyword token types", REPLAY_PRELUDE + f'''
dup = {dupk!r}
print("keywords sharing a token type:", [(k, v) for k, v in c_lexer._keyword_map.items() if v in dup])
print("REPRODUCED" if dup else "NOT-REPRODUCED")
'''))
    # -- maximal munch among punctuators -----------------------------------------------------
    P = S.PUNCTUATORS_EXPECTED
    for p in P:
        for q in P:
            if q != p and q.startswith(p):
                ok, text = lexes_as_one(q)
                out.append(_tb(f"C09/rx/adjacency/punctuator-prefix/{p}/{q}", ok, text,
                               [FB, "c_lexer.CLexer._match_token"], f"{q!r} is one token, not {p!r} + rest",
                               _single_token_replay(q, None, f"{p!r} is a proper prefix of {q!r}: input {q!r} must give {q!r}")))
    return out


def c09_adjacency_rx_obs(c: Ctx) -> List[RxOb]:
    """Regex rules versus punctuators (the lexer prefers the regex match unless the fixed
    token is strictly longer).  Reference facts used (C99): a '.' followed by a digit starts
    a floating constant (6.4.4.2 / pp-number 6.4.8); '/*' and '//' start comments (6.4.9),
    which pycparser reports as errors.  Apart from these, a text that starts with a
    punctuator must not be touched by any regex rule."""
    obs: List[RxOb] = []
    bad = c.ok(*c.names)
    exc = rx.alt(rx.cat(rx.lit("."), S.digit, rx.ANYSTAR), rx.cat(rx.lit("/*"), rx.ANYSTAR),
                 rx.cat(rx.lit("//"), rx.ANYSTAR))
    anypref = None if bad else rx.alt(*[c.lang("pref", n) for n in c.names])

    def validate(label, t):
        m = c.L._regex_master.match(t)
        return m is not None, f"_regex_master on {show(t)}: {(m.lastgroup, m.group()) if m else None}"

    for p in S.PUNCTUATORS_EXPECTED:
        name = f"C09/rx/adjacency/no-regex-interference/{p}"
        fn = ["c_lexer._regex_master", "c_lexer._fixed_tokens"]
        if bad:
            obs.append(undecided_ob(name, fn, bad))
            continue

        def replay(label, t, p=p):
            return REPLAY_PRELUDE + f'''
t, p = {t!r}, {p!r}
m = c_lexer._regex_master.match(t)
print("text", ascii(t), "starts with punctuator", p, "; master regex:", (m.lastgroup, m.group()) if m else None)
print("lexer:", lex_all(t))
print("REPRODUCED" if m is not None else "NOT-REPRODUCED")
'''
        obs.append(RxOb(name, fn, [("a regex rule matches a prefix",
                                    [(rx.cat(rx.lit(p), rx.ANYSTAR), True), (exc, False), (anypref, True)])],
                        validate, replay, f"texts starting with {p!r} (not '.digit', '/*', '//') match no regex rule"))
    # '.' digit ...  is lexed by FLOAT_CONST with at least two characters
    name = "C09/rx/adjacency/period-digit"
    F = "FLOAT_CONST"
    if F not in c.index or c.ok(*c.names[: c.index.get(F, 0) + 1]):
        obs.append(undecided_ob(name, [rule_fn(F)], c.ok(*c.names) or "no FLOAT_CONST rule"))
        return obs
    dotdigit = rx.cat(rx.lit("."), S.digit, rx.ANYSTAR)
    earlier = c.names[: c.index[F]]
    short = rx.cat(rx.alt(rx.EPS, rx.SIGMA), rx.MARKCH, rx.SIGMA_STAR)

    def validate_pd(label, w):
        t = w.replace(chr(rx.MARK), "")
        tok, errors, pos = real()["first_step"](t)
        ok = tok is not None and tok[0] == F and len(tok[1]) >= 2
        return t[:1] == "." and t[1:2].isdigit() and not ok, f"first lexer step on {show(t)}: {tok!r} {errors!r}"

    def replay_pd(label, w):
        t = w.replace(chr(rx.MARK), "")
        return REPLAY_PRELUDE + f'''
t = {t!r}
tok, errors, consumed = first_step(t)
print("first lexer step on", ascii(t), "->", tok, errors)
print("REPRODUCED" if not (tok is not None and tok[0] == "FLOAT_CONST" and len(tok[1]) >= 2) else "NOT-REPRODUCED")
'''
    qs = [("FLOAT_CONST does not match", [(dotdigit, True), (c.lang("pref", F), False)]),
          ("FLOAT_CONST can match fewer than 2 characters", [(c.lang("graph", F), True), (short, True)])]
    if earlier:
        qs.append(("an earlier rule matches", [(dotdigit, True), (rx.alt(*[c.lang("pref", e) for e in earlier]), True)]))
    obs.append(RxOb(name, [rule_fn(F), "c_lexer._fixed_tokens[PERIOD]"], qs, validate_pd, replay_pd,
                    "'.' followed by a digit is a FLOAT_CONST longer than PERIOD"))
    return obs


PLAN_BUILDERS = {
    "c10": lambda c: lang_obs(c) + error_obs(c) + priority_obs(c),
    "c09": lambda c: c09_newline_nonempty_obs(c) + c09_adjacency_rx_obs(c),
}


def c09_rx_obligations(tier: str = "quick") -> Result:
    c = ctx()
    res = _base_result(c)
    t0 = time.time()
    out, st = run_obs_refining("c09", tier)
    res.obs += out
    res.obs += c09_table_obs(c)
    res.solver_time_s = st
    res.assumptions.append("C99 keyword _Imaginary (6.4.1) is not supported by pycparser and is not required "
                           "by C09/rx/keywords (spec.lexical.KEYWORDS_C99_UNSUPPORTED)")
    res.assumptions.append("digraphs <: :> <% %> %: %:%: and # ## are not required as fixed tokens "
                           "(spec.lexical.DIGRAPHS, PP_ONLY); '#' is handled by CLexer.token itself")
    res.extra["rx"]["c09_wall_s"] = round(time.time() - t0, 2)
    return res


if __name__ == "__main__":
    # run the module under its real name so that worker functions are importable
    from pyvc import rx_obligations as _M

    import json

    args = [a for a in sys.argv[1:] if not a.startswith("--json=")]
    jpath = next((a.split("=", 1)[1] for a in sys.argv[1:] if a.startswith("--json=")), None)
    tier = args[0] if args else "quick"
    t0 = time.time()
    dump = []
    for fn in (_M.c10_obligations, _M.c09_rx_obligations):
        r = fn(tier)
        for o in r.obs:
            if jpath is None:
                print(f"{o.status:10s} {o.backend:16s} {'bounded ' if o.bounded else ''}{o.name}")
            dump.append(dict(name=o.name, status=o.status, backend=o.backend, bounded=o.bounded,
                             sample=o.sample, detail=o.detail[:1500], replay=o.replay))
        print(f"# {fn.__name__}: {len(r.obs)} obligations, solver {r.solver_time_s:.1f}s, wall so far {time.time() - t0:.1f}s")
    if jpath:
        with open(jpath, "w", encoding="utf-8") as f:
            json.dump(dict(repo=core.REPO, tier=tier, wall_s=round(time.time() - t0, 2), obligations=dump), f, indent=1)
