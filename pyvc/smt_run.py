"""Calls, contracts, statements, loops and the per-function driver of the SMT engine."""
from __future__ import annotations

import ast
import time
from typing import Any, Dict, List, Optional, Tuple

import z3

from . import core
from . import smt
from .smt import (
    B, CLASSES, CLASS_FIELDS, CONTRACTS, Contract, EngineError, FIELD_TYPES, FRESH, Heap, I, PREDICATES, S,
    PSeq, SV, Schema, SeqV, VBool, VC, VInt, VNone, VRef, VStr, Val, bval, cls_of, fresh, is_bool, is_int,
    is_none, is_ref, is_str, ival, lookup_field_type, mk_bool, mk_int, mk_none, mk_py, mk_ref, mk_seq,
    mk_str, mk_tuple, parse_ty, rval, sval,
)
from .smt_exec import Fork, Raised, State, Verifier, has_effect_call

SPEC_FUNCS = {"callres", "truthy", "ncalls", "callarg", "old", "forall", "implies", "elems", "has", "get", "isinst", "fresh_obj", "ite", "trigger",
              "strlen", "char_at", "typeis", "allocated", "iff", "exists_in", "substr", "int_of", "same"}


class RaisedOut:
    def __init__(self, exc, node=None):
        self.exc, self.node = exc, node


class FuncVerifier(Verifier):
    # ================================================================ calls
    def ev_Call(self, node: ast.Call, st: State) -> SV:
        f = node.func
        if st.spec and isinstance(f, ast.Name) and (f.id in SPEC_FUNCS or f.id in PREDICATES or f.id in self._ghost_funcs):
            return self.spec_call(node, st)
        if isinstance(f, ast.Name) and self.lookup_name(f.id, st) is None:
            b = self.builtin_call(f.id, node, st)
            if b is not None:
                return b
        fv = self.ev(f, st)
        args = [self.ev(a, st) for a in node.args]
        kwargs = {k.arg: self.ev(k.value, st) for k in node.keywords}
        return self.call_value(st, fv, args, kwargs, node)

    def call_value(self, st, fv: SV, args, kwargs, node) -> SV:
        if fv.kind == "closure":
            return self.inline_closure(st, fv, args, kwargs, node)
        if fv.kind == "py":
            p = fv.py
            if isinstance(p, tuple) and p and p[0] == "method":
                return self.builtin_method(st, p[2], p[1], args, kwargs, node)
            if isinstance(p, tuple) and p and p[0] == "boundmethod":
                return self.call_named(st, p[1], [p[2]] + args, kwargs, node)
            if isinstance(p, type):
                return self.construct(st, p, args, kwargs, node)
            import re as _re
            if callable(p) and isinstance(getattr(p, "__self__", None), _re.Pattern):
                return self.call_named(st, "re.Pattern." + p.__name__, [mk_py(p.__self__)] + args, kwargs, node)
            if callable(p) and isinstance(getattr(p, "__self__", None), dict) and p.__name__ == "get":
                return self.pydict_get(st, p.__self__, args, node)
            if p is _re.match:
                return self.call_named(st, "re.match", args, kwargs, node)
            if callable(p) and hasattr(p, "__qualname__"):
                return self.call_named(st, p.__qualname__, args, kwargs, node)
        if fv.kind == "ref" and fv.ty and fv.ty[0] == "callable":
            return self.call_named(st, fv.ty[1], args, kwargs, node)
        raise EngineError(f"call of {fv} at line {node.lineno}")

    def pydict_get(self, st, d: dict, args, node) -> SV:
        key = args[0]
        default = args[1] if len(args) > 1 else mk_none()
        if all(self._simple_py(v) for v in d.values()):
            res = default
            for k in reversed(list(d)):
                res = self.merge(st, self.equal(st, key, self.from_py(k), False), self.from_py(d[k]), res)
            return res
        for k in d:
            if self._decide_key(st, ("pyget", id(node), k), self.equal(st, key, self.from_py(k), False)):
                return self.from_py(d[k])
        return default

    # ---- builtins
    def builtin_call(self, name: str, node: ast.Call, st: State) -> Optional[SV]:
        if name == "len":
            v = self.ev(node.args[0], st)
            if v.kind == "str":
                return mk_int(z3.Length(sval(v.v)))
            if v.kind == "tuple":
                return mk_int(len(v.items))
            if v.kind == "py":
                return mk_int(len(v.py))
            if v.kind == "seq":
                return mk_int(v.items.n)
            if v.kind == "ref" and v.ty and v.ty[0] in ("list", "tuple"):
                return mk_int(st.heap.LN[st.regref(rval(v.v))])
            if st.spec:
                return mk_int(z3.If(is_str(v.v), z3.Length(sval(v.v)), st.heap.LN[st.regref(rval(v.v))]))
            raise EngineError(f"len of {v} at line {node.lineno}")
        if name == "isinstance":
            v = self.ev(node.args[0], st)
            c = self.ev(node.args[1], st)
            return mk_bool(self.inst_pred(st, v, c))
        if name == "cast":
            return self.ev(node.args[1], st)
        if name == "hasattr":
            v = self.ev(node.args[0], st)
            a = node.args[1]
            if not isinstance(a, ast.Constant):
                raise EngineError("hasattr with dynamic name")
            if v.kind in ("str", "int", "bool", "none", "py", "tuple"):
                return mk_bool(False)
            cn = self.static_class(v)
            if cn is not None and cn not in ("list", "dict", "tuple"):
                return mk_bool(self.class_has_attr(cn, a.value))
            r = rval(v.v)
            ok = z3.Or([cls_of(r) == CLASSES.ids[c] for c in self.classes_with_attr(a.value)] or [z3.BoolVal(False)])
            return mk_bool(z3.And(is_ref(v.v), ok))
        if name == "getattr" and len(node.args) == 3 and isinstance(node.args[1], ast.Constant):
            v = self.ev(node.args[0], st)
            d = self.ev(node.args[2], st)
            a = node.args[1].value
            cn = self.static_class(v)
            if cn is not None:
                return self.load_attr(st, v, a, node) if self.class_has_attr(cn, a) else d
            r = rval(v.v)
            ok = z3.And(is_ref(v.v), z3.Or([cls_of(r) == CLASSES.ids[c] for c in self.classes_with_attr(a)] or [z3.BoolVal(False)]))
            st.ctx.append(ok)
            fld = self.load_field(st, v, a, None, node)
            st.ctx.pop()
            return self.merge(st, ok, fld, d)
        if name == "int" and len(node.args) == 1:
            v = self.ev(node.args[0], st)
            if v.kind == "int":
                return v
            self.need_kind(st, v, "str", node)
            s = sval(v.v)
            ok = z3.And(z3.Length(s) > 0, z3.InRe(s, z3.Plus(z3.Range("0", "9"))))
            if not self._catching(st, "ValueError"):
                self.oblige(st, ok, "rte-ValueError", node, "int()")
                st.assume(ok)
            else:
                if not self._decide_key(st, ("int", id(node)), ok):
                    raise Raised("ValueError", node.lineno)
            return mk_int(z3.StrToInt(s))
        if name == "max" and len(node.args) == 2:
            a, b = self.ev(node.args[0], st), self.ev(node.args[1], st)
            self.need_kind(st, a, "int", node)
            self.need_kind(st, b, "int", node)
            return mk_int(z3.If(ival(a.v) >= ival(b.v), ival(a.v), ival(b.v)))
        if name == "repr":
            return mk_str(self.str_of(st, self.ev(node.args[0], st), repr_=True))
        if name == "str" and len(node.args) == 1:
            return mk_str(self.str_of(st, self.ev(node.args[0], st)))
        if name == "tuple" and len(node.args) == 1:
            v = self.ev(node.args[0], st)
            r = self.alloc(st, "tuple")
            st.heap.set_lseq(r, self.as_seq(st, v))
            ety = v.ty[1] if v.ty and v.ty[0] == "list" else ("any",)
            return mk_ref(r, ("list", ety))  # immutable sequence: modelled like a list that nobody mutates
        if name == "dict" and not node.args:
            r = self.alloc(st, "dict")
            dk = z3.K(S, z3.BoolVal(False))
            dv = st.heap.DV[r]
            for k in node.keywords:
                dk = z3.Store(dk, z3.StringVal(k.arg), True)
                dv = z3.Store(dv, z3.StringVal(k.arg), self.to_val(st, self.ev(k.value, st)))
            st.heap.DK = z3.Store(st.heap.DK, r, dk)
            st.heap.DV = z3.Store(st.heap.DV, r, dv)
            return mk_ref(r, ("dict", ("any",)))
        return None

    def inst_pred(self, st, v: SV, c: SV):
        if c.kind == "tuple":
            return z3.Or([self.inst_pred(st, v, x) for x in c.items] or [z3.BoolVal(False)])
        if c.kind != "py":
            raise EngineError("isinstance with symbolic class")
        k = c.py
        if isinstance(k, tuple):
            return z3.Or([self.inst_pred(st, v, mk_py(x)) for x in k] or [z3.BoolVal(False)])
        if v.kind in ("py", "closure"):
            return z3.BoolVal(isinstance(v.py, k)) if v.kind == "py" else z3.BoolVal(False)
        if v.kind == "tuple":
            return z3.BoolVal(k is tuple)
        if k is str:
            return is_str(v.v)
        if k is int:
            return z3.Or(is_int(v.v), is_bool(v.v))
        if k is bool:
            return is_bool(v.v)
        name = k.__name__
        if name not in CLASSES.ids:
            raise EngineError(f"isinstance against unknown class {name}")
        if v.kind in ("none", "bool", "int", "str"):
            return z3.BoolVal(False)
        cn = self.static_class(v)
        r = rval(v.v)
        if cn is not None and CLASSES.is_sub(cn, name):
            return z3.BoolVal(True)
        base = CLASSES.inst(r, name)
        return base if v.kind == "ref" else z3.And(is_ref(v.v), base)

    def _catching(self, st, exc) -> bool:
        return exc in getattr(st, "_catch", ())

    # ---- builtin methods on str / list / dict
    def builtin_method(self, st, obj: SV, name: str, args, kwargs, node) -> SV:
        if obj.kind == "str":
            s = sval(obj.v)
            if name == "startswith":
                lit = sval(args[0].v)
                if len(args) > 1:
                    p = ival(args[1].v)
                    tail = z3.Extract(s, p, z3.Length(s) - p)
                    res = z3.And(p <= z3.Length(s), z3.PrefixOf(lit, tail))
                    sl = z3.simplify(lit)
                    if z3.is_string_value(sl) and len(sl.as_string()) <= 12 and not st.spec:
                        # character-level consequences of a literal prefix (valid by the semantics of strings)
                        txt = sl.as_string()
                        facts = [z3.SubString(s, p + k, 1) == z3.StringVal(ch) for k, ch in enumerate(txt)]
                        facts.append(p + len(txt) <= z3.Length(s))
                        st.pc.append(z3.Implies(res, z3.And(facts)))
                        for k in range(len(txt) + 1):
                            st.reg(p + k)
                    return mk_bool(res)
                return mk_bool(z3.PrefixOf(lit, s))
            if name in ("find", "index"):
                sub = sval(args[0].v)
                start = ival(args[1].v) if len(args) > 1 else z3.IntVal(0)
                if len(args) > 2:
                    raise EngineError(f"str.{name} with an end argument")
                res = z3.IndexOf(s, sub, start)
                sl = z3.simplify(sub)
                if z3.is_string_value(sl) and len(sl.as_string()) == 1 and not st.spec:
                    # character-level meaning of searching for ONE character from a non-negative start (valid by the
                    # semantics of str.find): the result is the first position >= start holding it, or -1 if there is none
                    r = fresh("find", I)
                    st.pc.append(z3.Implies(z3.And(start >= 0, start <= z3.Length(s)), r == res))
                    st.pc.append(z3.Or(r == -1, z3.And(r >= start, r < z3.Length(s), z3.SubString(s, r, 1) == sub)))
                    st.schemas.append(Schema(lambda k, r=r, s=s, sub=sub, start=start: z3.Implies(
                        z3.And(start >= 0, k >= start, k < z3.Length(s), z3.Or(r == -1, k < r)), z3.SubString(s, k, 1) != sub), "find-first"))
                    st.reg(r)
                    res = z3.If(z3.And(start >= 0, start <= z3.Length(s)), r, res)
                if name == "index":
                    if not self._catching(st, "ValueError"):
                        self.oblige(st, res >= 0, "rte-ValueError", node, "str.index")
                    st.assume(res >= 0)
                return mk_int(res)
            if name in ("lstrip", "rstrip", "strip"):
                fn = z3.Function("py_" + name, S, S, S)
                self.unmodelled.add("str." + name)   # uninterpreted: a counter-model that depends on it is not a verdict
                chars = sval(args[0].v) if args else z3.StringVal(" \t\n")
                res = fn(s, chars)
                st.assume(z3.Length(res) <= z3.Length(s))
                return mk_str(res)
            if name == "join":
                fn = z3.Function("py_join", S, Val, S)
                self.unmodelled.add("str." + name)   # uninterpreted: a counter-model that depends on it is not a verdict
                return mk_str(fn(s, self.to_val(st, args[0])))
            if name in ("isspace", "isdigit", "isalpha", "isalnum", "isupper", "islower", "isidentifier", "isascii"):
                fn = z3.Function("py_" + name, S, B)
                self.unmodelled.add("str." + name)   # uninterpreted: a counter-model that depends on it is not a verdict
                return mk_bool(fn(s))
            if name in ("lower", "upper"):
                fn = z3.Function("py_" + name, S, S)
                self.unmodelled.add("str." + name)   # uninterpreted: a counter-model that depends on it is not a verdict
                return mk_str(fn(s))
            if name == "format":
                fn = z3.Function("py_format", S, S)
                self.unmodelled.add("str." + name)   # uninterpreted: a counter-model that depends on it is not a verdict
                return mk_str(fn(s))
            raise EngineError(f"str.{name}")
        r = st.regref(rval(obj.v))
        if obj.ty[0] == "list":
            seq = st.heap.lseq(r)
            ety = obj.ty[1]
            st.pc.append(seq.n >= 0)
            if name == "append":
                x = self.to_val(st, args[0])
                self.check_elem(st, x, ety, node)
                st.reg(seq.n)
                st.heap.set_lseq(r, seq.append(x))
                return mk_none()
            if name == "insert":
                x = self.to_val(st, args[1])
                self.check_elem(st, x, ety, node)
                i = z3.simplify(ival(args[0].v))
                if z3.is_int_value(i) and i.as_long() == 0:
                    st.heap.set_lseq(r, self.seq_concat(st, PSeq.empty().append(x), seq))
                    return mk_none()
                raise EngineError("list.insert at non-zero index")
            if name == "extend":
                other = self.as_seq(st, args[0])
                st.heap.set_lseq(r, self.seq_concat(st, seq, other))
                return mk_none()
            if name == "pop" and not args:
                n = seq.n
                self.oblige(st, n > 0, "rte-IndexError", node, "pop")
                st.assume(n > 0)
                last = seq.at(n - 1)
                st.reg(n - 1)
                st.ld_elem(r, n - 1)
                st.heap.set_lseq(r, PSeq(seq.arr, n - 1))
                v = self.assume_type(st, last, ety)
                return v
            raise EngineError(f"list.{name}")
        if obj.ty[0] == "dict":
            if name == "get":
                k = sval(args[0].v)
                d = args[1] if len(args) > 1 else mk_none()
                has = st.heap.DK[r][k]
                val = self.assume_type(st, st.heap.DV[r][k], ("any",))
                vty = obj.ty[1]
                if vty and vty[0] != "any":
                    st.assume(z3.Implies(has, self.type_pred(st, st.heap.DV[r][k], vty)))
                res = self.merge(st, has, SV(st.heap.DV[r][k], self._kind_of(vty), vty), d)
                return res
            raise EngineError(f"dict.{name}")
        raise EngineError(f"method {name} on {obj}")

    def check_elem(self, st, x, ety, node):
        if ety is not None and ety[0] != "any":
            self.oblige(st, self.type_pred(st, x, ety), "type-invariant", node, "element")

    # ---- constructors
    def construct(self, st, pycls: type, args, kwargs, node) -> SV:
        name = pycls.__name__
        if name not in CLASSES.ids:
            if issubclass(pycls, BaseException):
                return mk_py(("exception", name))
            raise EngineError(f"constructor of unknown class {name}")
        r = self.alloc(st, name)
        obj = mk_ref(r, ("obj", name))
        init = f"{name}.__init__"
        if init in CONTRACTS:
            self.call_named(st, init, [obj] + args, kwargs, node)
            return obj
        # default: every constructor parameter is stored in the field of the same name
        import inspect

        try:
            sig = inspect.signature(pycls.__init__)
        except (TypeError, ValueError):
            raise EngineError(f"no signature for {name}")
        params = [p for p in list(sig.parameters.values())[1:]]
        bound: Dict[str, SV] = {}
        for p, a in zip(params, args):
            bound[p.name] = a
        for k, v in kwargs.items():
            bound[k] = v
        for p in params:
            if p.name not in bound:
                if p.default is inspect.Parameter.empty:
                    raise EngineError(f"missing argument {p.name} for {name}")
                bound[p.name] = self.from_py(p.default)
        fields = self.ctor_fields(pycls)
        if fields is None or set(fields) != set(bound):
            raise EngineError(f"constructor {name}: no __init__ contract and not a plain field constructor")
        for fname, v in bound.items():
            self.store_field(st, obj, fname, v, node, check=True)
        self.on_new(st, name, obj, bound)
        return obj

    def ctor_fields(self, pycls) -> Optional[List[str]]:
        import dataclasses

        if dataclasses.is_dataclass(pycls):
            return [f.name for f in dataclasses.fields(pycls)]
        slots = getattr(pycls, "__slots__", None)
        if slots is not None and pycls.__module__.endswith("c_ast"):
            return [s for s in slots if s != "__weakref__"]
        return None

    def on_new(self, st, cname, obj: SV, bound: Dict[str, SV]):
        for clause in self.con.on_new.get(cname, []):
            sv = self.spec_view(st, dict(st.locals, **dict(bound, new=obj)), None)   # locals of the function are visible (ghost definitions)
            for f in self.formulas(clause, sv, "assume"):
                self.add_hyp(st, f)

    # ---- field stores
    def store_field(self, st, obj: SV, attr: str, v: SV, node, check=True):
        cname = self.static_class(obj)
        r = st.regref(rval(obj.v))
        ty = lookup_field_type(cname, attr) if cname else None
        t = self.to_val(st, v)
        if check and ty is not None and ty[0] != "any":
            self.oblige(st, self.type_pred(st, t, ty), "type-invariant", node, f"{cname}.{attr}")
        st.heap.fields[attr] = z3.Store(st.heap.field(attr), r, t)

    # ---- contract application
    def bind_params(self, con: Contract, fnode: Optional[ast.FunctionDef], args, kwargs, node) -> Dict[str, SV]:
        names = list(con.params)
        bound: Dict[str, SV] = {}
        for n, a in zip(names, args):
            bound[n] = a
        for k, v in kwargs.items():
            if k not in con.params:
                raise EngineError(f"unexpected keyword {k} for {con.name}")
            bound[k] = v
        if len(args) > len(names):
            raise EngineError(f"too many arguments for {con.name}")
        missing = [n for n in names if n not in bound]
        if missing:
            defaults = self.real_defaults(con)
            for n in missing:
                if n not in defaults:
                    raise EngineError(f"missing argument {n} for {con.name} at line {getattr(node, 'lineno', '?')}")
                bound[n] = self.from_py(defaults[n])
        return bound

    def real_defaults(self, con: Contract) -> Dict[str, Any]:
        if con.file is None:
            return getattr(con, "_defaults", {})
        src = core.Source.get(con.file)
        if not src.has(con.name):
            return {}
        fn = src.node(con.name)
        out = {}
        pos = fn.args.args
        for p, d in zip(pos[len(pos) - len(fn.args.defaults):], fn.args.defaults):
            try:
                out[p.arg] = ast.literal_eval(d)
            except Exception:
                pass
        return out

    def spec_view(self, st: State, locals_: Dict[str, SV], old: Optional[State], ghost=None) -> State:
        v = State.__new__(State)
        v.events = st.events
        v.loads = st.loads
        v.calllog = st.calllog
        v.callbase = st.callbase
        v.locals = locals_
        v.heap = st.heap
        v.pc = st.pc
        v.schemas = st.schemas
        v.idx = st.idx
        v.decisions = {}
        v.old = old
        v.parent = None
        v.spec = True
        v.ctx = st.ctx
        v.ghostvals = dict(ghost or {})
        return v

    def snapshot(self, st: State, locals_: Dict[str, SV]) -> State:
        v = self.spec_view(st, dict(locals_), None)
        v.heap = st.heap.copy()
        v.calllog = list(st.calllog)
        v.callbase = dict(st.callbase)
        return v

    def call_named(self, st, qual: str, args, kwargs, node) -> SV:
        qual = self.con.use.get(qual, qual)
        con = CONTRACTS.get(qual)
        if con is None:
            r = self.inline_function(st, qual, args, kwargs, node) if hasattr(self, "inline_function") else None
            if r is not None:
                return r
            raise EngineError(f"call to {qual} which has no contract (line {getattr(node, 'lineno', '?')})")
        bound = self.bind_params(con, None, args, kwargs, node)
        self.callees.add(qual)
        # parameter types are part of the precondition
        for pn, ty in con.params.items():
            if ty[0] != "any":
                t = self.to_val(st, bound[pn])
                if bound[pn].kind not in ("tuple", "py"):
                    self.oblige(st, self.type_pred(st, t, ty), "pre", node, f"{qual}:type({pn})")
                if bound[pn].ty is None or bound[pn].kind is None:
                    bound[pn] = SV(t, self._kind_of(ty), ty)
        pre = self.snapshot(st, bound)
        for i, clause in enumerate(con.requires):
            for f in self.formulas(clause, self.spec_view(st, bound, None), "assert"):
                self.oblige(st, f, "pre", node, f"{qual}:{i}")
        if "noreturn" in con.props:
            exc = con.raises[0]
            if exc not in self.con.raises and "*" not in self.con.raises and not self._catching(st, exc):
                self.oblige(st, z3.BoolVal(False), "raises", node, f"{exc}-from-{qual}")
            if con.ensures_exc.get(exc):
                em = self.assume_type(st, fresh("excmsg", Val), ("str",))
                pvx = self.spec_view(st, dict(bound, exc_msg=em), pre)
                for clause in con.ensures_exc[exc]:
                    for f in self.formulas(clause, pvx, "assume"):
                        self.add_hyp(st, f)
                st.locals["exc_msg"] = em
            raise Raised(exc, getattr(node, "lineno", None))
        # exceptional exits of the callee
        for exc in con.raises:
            if self._catching(st, exc):
                raise EngineError("try/except around a contract call is outside the subset")
            if exc not in self.con.raises and "*" not in self.con.raises:
                self.oblige(st, z3.BoolVal(False), "raises", node, f"{exc}-from-{qual}")
        # havoc the frame (the callee may allocate: bump the watermark first)
        if con.pure_alloc:
            a2 = fresh("A", I)
            st.pc.append(a2 >= st.heap.A)
            st.heap.A = a2
        self.havoc(st, con, bound, pre)
        st.snap()
        res_t = fresh("res", Val)
        res = self.assume_type(st, res_t, con.returns)
        st.assume(z3.Implies(is_ref(res_t), rval(res_t) < st.heap.A))
        if con.returns[0] == "tuple":
            # python-side tuple of fresh, typed components
            items = []
            for k, ety in enumerate(con.returns[1]):
                items.append(self.assume_type(st, fresh("res", Val), ety))
            res = mk_tuple(items)
        logged_entry = None
        if qual.startswith("cb.") or con.props.count("logged"):
            logged_entry = [qual, [bound[p] for p in con.params], None]
            st.calllog.append(logged_entry)
        if con.calls is not None:
            for (cb, argexprs) in con.calls:
                cv = self.spec_view(pre, dict(bound), None)
                cv.pc, cv.schemas, cv.idx, cv.ctx = st.pc, st.schemas, st.idx, st.ctx
                st.calllog.append((cb, [self.ev(ast.parse(e, mode="eval").body, cv) for e in argexprs]))
        elif not qual.startswith("cb."):
            # the callee may call back any number of times: its ensures relate the new counts to the old ones
            for nm in [k for k, c in CONTRACTS.items() if k.startswith("cb.") or "logged" in c.props]:
                if nm == qual:
                    continue
                n0 = len([c for c in st.calllog if c[0] == nm])
                cur = (st.callbase[nm] + n0) if nm in st.callbase else z3.IntVal(n0)
                c2 = fresh("ncalls", I)
                st.pc.append(c2 >= cur)
                st.callbase[nm] = c2
            keep = [c for c in st.calllog if c[0] == qual]
            base_q = st.callbase.get(qual)
            st.calllog[:] = []
            if keep:
                # own log entries of a logged callee stay countable
                st.callbase[qual] = (base_q + len(keep)) if base_q is not None else z3.IntVal(len(keep))
        if logged_entry is not None:
            logged_entry[2] = res
        post_locals = dict(bound, result=res)
        pv = self.spec_view(st, post_locals, pre)
        for clause in con.ensures:
            for f in self.formulas(clause, pv, "assume"):
                self.add_hyp(st, f)
        if con.axioms:
            av = self.spec_view(pre, dict(bound), None)
            av.pc, av.schemas, av.idx, av.ctx = st.pc, st.schemas, st.idx, st.ctx
            for ax in con.axioms:
                for f in self.formulas(ax, av, "assume"):
                    self.add_hyp(st, f)
        return res

    def add_hyp(self, st, f):
        if isinstance(f, Schema):
            st.schemas.append(f)
        else:
            st.assume(f)

    def havoc(self, st, con: Contract, bound, pre: State):
        for loc in con.modifies:
            self.havoc_loc(st, loc, self.spec_view(pre, bound, None) if False else pre)

    def havoc_loc(self, st, loc: str, ctx: State):
        loc = loc.strip()
        if loc == "fresh":
            return
        if loc.startswith("field:"):
            f = loc[6:]
            old = st.heap.field(f)
            new = fresh(f"H!{f}", z3.ArraySort(I, Val))
            st.heap.fields[f] = new
            return
        if loc == "lists:*":
            st.heap.LA = fresh("LA", st.heap.LA.sort())
            st.heap.LN = fresh("LN", st.heap.LN.sort())
            return
        if loc == "dicts:*":
            st.heap.DK = fresh("DK", st.heap.DK.sort())
            st.heap.DV = fresh("DV", st.heap.DV.sort())
            return
        e = ast.parse(loc, mode="eval").body
        if isinstance(e, ast.Call) and isinstance(e.func, ast.Name) and e.func.id == "elems":
            o = self.ev(e.args[0], ctx)
            r = rval(o.v)
            nn = fresh("len", I)
            st.pc.append(nn >= 0)
            st.heap.set_lseq(r, PSeq(fresh("seq", smt.ArrV), nn))
            return
        if isinstance(e, ast.Call) and isinstance(e.func, ast.Name) and e.func.id == "items":
            o = self.ev(e.args[0], ctx)
            r = rval(o.v)
            st.heap.DK = z3.Store(st.heap.DK, r, fresh("dk", z3.ArraySort(S, B)))
            st.heap.DV = z3.Store(st.heap.DV, r, fresh("dv", z3.ArraySort(S, Val)))
            return
        if isinstance(e, ast.Call) and isinstance(e.func, ast.Name) and e.func.id == "fields":
            o = self.ev(e.args[0], ctx)
            for a in e.args[1:]:
                self._havoc_field(st, o, a.id if isinstance(a, ast.Name) else a.value)
            return
        if isinstance(e, ast.Attribute):
            o = self.ev(e.value, ctx)
            self._havoc_field(st, o, e.attr)
            return
        raise EngineError(f"modifies clause {loc!r}")

    def _havoc_field(self, st, o: SV, f: str):
        r = rval(o.v)
        nv = fresh(f"hv!{f}", Val)
        st.heap.fields[f] = z3.Store(st.heap.field(f), r, nv)
        ty = lookup_field_type(self.static_class(o), f)
        if ty is not None:
            st.assume(self.type_pred(st, nv, ty))

    # ---- closures
    def inline_closure(self, st, fv: SV, args, kwargs, node) -> SV:
        fn: ast.FunctionDef = fv.py
        frame = State.__new__(State)
        frame.__dict__.update(st.__dict__) if hasattr(st, "__dict__") else None
        raise EngineError("closure call outside statement context")

    # ================================================================ spec language
    def declare_ghosts(self):
        for c in CONTRACTS.values():
            for (name, argsorts, ret, reads) in c.ghost:
                self._ghost_funcs[name] = (argsorts, ret, reads, c)

    def ghost_app(self, name, args: List[SV], st: State) -> SV:
        argsorts, ret, reads, owner = self._ghost_funcs[name]
        sorts = {"int": I, "bool": B, "val": Val, "str": S, "seq": SeqV}
        zargs = []
        for a, so in zip(args, argsorts):
            zargs.append(self.coerce(st, a, so))
        extra = []
        # implicit arguments: the owner's parameters (as bound in this spec state) and the heap parts it reads
        for pn in owner.params:
            pv = self.lookup_name(pn, st)
            if pv is None and st.old is not None:
                pv = st.old.locals.get(pn)
            if pv is None:
                raise EngineError(f"ghost {name}: parameter {pn} of {owner.name} unbound here")
            extra.append(self.to_val(st, pv))
        for rd in reads:
            if rd == "L":
                extra.append(st.heap.LA)
                extra.append(st.heap.LN)
            elif rd == "DK":
                extra.append(st.heap.DK)
            elif rd == "DV":
                extra.append(st.heap.DV)
            else:
                extra.append(st.heap.field(rd))
        doms = [z.sort() for z in zargs + extra]
        fn = z3.Function(f"ghost_{name}", *doms, sorts[ret])
        t = fn(*(zargs + extra))
        return {"int": mk_int, "bool": mk_bool, "str": mk_str}.get(ret, lambda x: SV(x, None, None))(t)

    def coerce(self, st, a: SV, so: str):
        if so == "int":
            return ival(a.v)
        if so == "bool":
            return self.truthy(st, a)
        if so == "str":
            return sval(a.v)
        if so == "seq":
            raise EngineError("sequence-sorted ghost argument")
        return self.to_val(st, a)

    def spec_call(self, node: ast.Call, st: State) -> SV:
        name = node.func.id
        if name in self._ghost_funcs:
            return self.ghost_app(name, [self.ev(a, st) for a in node.args], st)
        if name in PREDICATES:
            params, body = PREDICATES[name]
            args = [self.ev(a, st) for a in node.args]
            sv = self.spec_view(st, dict(zip(params, args)), st.old, st.ghostvals)
            sv.heap = st.heap
            fs = self.formulas(body, sv, "term")
            return mk_bool(z3.And(fs) if len(fs) != 1 else fs[0])
        if name == "old":
            if st.old is None:
                raise EngineError("old() without a pre-state")
            o = st.old
            ov = self.spec_view(o, o.locals, None, st.ghostvals)
            ov.heap = o.heap
            ov.pc, ov.schemas, ov.idx, ov.ctx = st.pc, st.schemas, st.idx, st.ctx
            # names not bound in the pre-state (e.g. `result`) resolve in the current state
            merged = dict(st.locals)
            merged.update(o.locals)
            ov.locals = merged
            return self.ev(node.args[0], ov)
        if name == "implies":
            a = self.truthy(st, self.ev(node.args[0], st))
            b = self.truthy(st, self.ev(node.args[1], st))
            return mk_bool(z3.Implies(a, b))
        if name == "iff":
            a = self.truthy(st, self.ev(node.args[0], st))
            b = self.truthy(st, self.ev(node.args[1], st))
            return mk_bool(a == b)
        if name == "ite":
            c = self.truthy(st, self.ev(node.args[0], st))
            return self.merge(st, c, self.ev(node.args[1], st), self.ev(node.args[2], st))
        if name == "elems":
            v = self.ev(node.args[0], st)
            sq = mk_seq(self.as_seq(st, v), v.ty[1] if v.ty and v.ty[0] == "list" else None)
            if v.kind in ("ref", None) and v.v is not None:
                sq.py = rval(v.v)
            return sq
        if name == "has":
            d = self.ev(node.args[0], st)
            k = self.ev(node.args[1], st)
            return mk_bool(st.heap.DK[st.regref(rval(d.v))][sval(k.v)])
        if name == "get":
            d = self.ev(node.args[0], st)
            k = self.ev(node.args[1], st)
            vty = d.ty[1] if d.ty and d.ty[0] == "dict" else None
            return SV(st.heap.DV[st.regref(rval(d.v))][sval(k.v)], self._kind_of(vty), vty)
        if name == "isinst":
            v = self.ev(node.args[0], st)
            cn = node.args[1].value
            return mk_bool(z3.And(is_ref(v.v), CLASSES.inst(rval(v.v), cn)))
        if name == "typeis":
            v = self.ev(node.args[0], st)
            return mk_bool(self.type_pred(st, self.to_val(st, v), parse_ty(node.args[1].value)))
        if name == "fresh_obj":
            v = self.ev(node.args[0], st)
            if st.old is None:
                raise EngineError("fresh_obj without pre-state")
            return mk_bool(z3.And(is_ref(v.v), rval(v.v) >= st.old.heap.A))
        if name == "allocated":
            v = self.ev(node.args[0], st)
            return mk_bool(z3.And(is_ref(v.v), rval(v.v) >= 0, rval(v.v) < st.heap.A))
        if name == "trigger":
            v = self.ev(node.args[0], st)
            st.reg(ival(v.v) if v.kind == "int" else rval(v.v))
            return mk_bool(True)
        if name == "strlen":
            return mk_int(z3.Length(sval(self.ev(node.args[0], st).v)))
        if name == "char_at":
            s = sval(self.ev(node.args[0], st).v)
            i = ival(self.ev(node.args[1], st).v)
            st.reg(i)
            return mk_str(z3.SubString(s, i, 1))
        if name == "substr":
            s = sval(self.ev(node.args[0], st).v)
            a = ival(self.ev(node.args[1], st).v)
            b = ival(self.ev(node.args[2], st).v)
            return mk_str(z3.SubString(s, a, b - a))
        if name == "ncalls":
            nm = node.args[0].value
            n = len([c for c in st.calllog if c[0] == nm])
            return mk_int(st.callbase[nm] + n) if nm in st.callbase else mk_int(n)
        if name == "callarg":
            nm, i, j = node.args[0].value, node.args[1].value, node.args[2].value
            cs = [c for c in st.calllog if c[0] == nm]
            if i >= len(cs):
                return mk_none()
            return cs[i][1][j]
        if name == "callres":
            nm, i = node.args[0].value, node.args[1].value
            cs = [c for c in st.calllog if c[0] == nm]
            if i >= len(cs) or len(cs[i]) < 3 or cs[i][2] is None:
                return mk_none()
            return cs[i][2]
        if name == "truthy":
            return mk_bool(self.truthy(st, self.ev(node.args[0], st)))
        if name == "same":
            a, b = self.ev(node.args[0], st), self.ev(node.args[1], st)
            return mk_bool(self.to_val(st, a) == self.to_val(st, b))
        raise EngineError(f"spec function {name}")

    def formulas(self, clause, st: State, mode: str) -> List[Any]:
        """Translate a contract clause (python expression text) in spec state `st`.
        mode 'assume': list of BoolRef / Schema.  mode 'assert' / 'term': list of BoolRef
        (universal goals skolemised)."""
        node = ast.parse(clause, mode="eval").body if isinstance(clause, str) else clause
        return self._formula(node, st, mode, [])

    def _formula(self, node, st, mode, guards) -> List[Any]:
        if isinstance(node, ast.BoolOp) and isinstance(node.op, ast.And):
            out = []
            for v in node.values:
                out += self._formula(v, st, mode, guards)
            return out
        if isinstance(node, ast.Call) and isinstance(node.func, ast.Name):
            fn = node.func.id
            if fn == "implies" and self._has_forall(node.args[1]):
                g = self.truthy(st, self.ev(node.args[0], st))
                return self._formula(node.args[1], st, mode, guards + [g])
            if fn == "forall":
                lam = node.args[0]
                var = lam.args.args[0].arg
                if mode == "assume":
                    def inst(t, lam=lam, var=var, st=st, guards=guards):
                        sv = self.spec_view(st, dict(st.locals), st.old, st.ghostvals)
                        sv.heap = st.heap.copy() if False else st.heap
                        sv.pc, sv.ctx = [], []
                        sv.locals[var] = mk_int(t)
                        body = self.truthy(sv, self.ev(lam.body, sv))
                        side = z3.And(sv.pc) if sv.pc else z3.BoolVal(True)
                        f = z3.Implies(z3.And(guards + [side]) if guards or sv.pc else z3.BoolVal(True), body)
                        return f
                    # capture heap snapshot: the schema talks about the heap as of now
                    snap = self.spec_view(st, dict(st.locals), st.old, st.ghostvals)
                    snap.heap = st.heap.copy()
                    return [Schema(lambda t, lam=lam, var=var, snap=snap, guards=list(guards): self._inst(lam, var, snap, guards, t),
                                   ast.unparse(node))]
                sk = fresh("sk!" + var, I)
                st.reg(sk)
                sv = self.spec_view(st, dict(st.locals), st.old, st.ghostvals)
                sv.locals[var] = mk_int(sk)
                body = self._formula(lam.body, sv, mode, [])
                b = z3.And(body) if len(body) != 1 else body[0]
                return [z3.Implies(z3.And(guards), b) if guards else b]
            if fn in PREDICATES and self._pred_has_forall(fn):
                params, body = PREDICATES[fn]
                args = [self.ev(a, st) for a in node.args]
                sv = self.spec_view(st, dict(zip(params, args)), st.old, st.ghostvals)
                return self._formula(ast.parse(body, mode="eval").body, sv, mode, guards)
        t = self.truthy(st, self.ev(node, st))
        return [z3.Implies(z3.And(guards), t) if guards else t]

    def _inst(self, lam, var, snap: State, guards, t):
        sv = self.spec_view(snap, dict(snap.locals), snap.old, snap.ghostvals)
        sv.heap = snap.heap
        sv.pc, sv.ctx, sv.idx, sv.schemas = [], [], {}, []
        sv.locals[var] = mk_int(t)
        body = self.truthy(sv, self.ev(lam.body, sv))
        inst = z3.Implies(z3.And(guards), body) if guards else body
        # facts produced while evaluating the body (heap well-formedness of loaded references) are true facts
        return z3.And(list(sv.pc) + [inst]) if sv.pc else inst

    def _has_forall(self, node) -> bool:
        for n in ast.walk(node):
            if isinstance(n, ast.Call) and isinstance(n.func, ast.Name):
                if n.func.id == "forall" or (n.func.id in PREDICATES and self._pred_has_forall(n.func.id)):
                    return True
        return False

    def _pred_has_forall(self, name) -> bool:
        return "forall(" in PREDICATES[name][1]
