#!/usr/bin/env python3
"""Per-property driver:  python3-vt check.py <ID> --tier quick|thorough
                         python3-vt check.py --replay <path>

Exit codes: 0 held / 1 violation (VIOLATION line) / 2 undecided / 3 checker crash.
"""
import argparse
import importlib
import os
import subprocess
import sys

HERE = os.path.dirname(os.path.abspath(__file__))
sys.path.insert(0, HERE)
sys.dont_write_bytecode = True


def main() -> int:
    ap = argparse.ArgumentParser()
    ap.add_argument("prop", nargs="?")
    ap.add_argument("--tier", default=os.environ.get("VERIF_TIER", "quick"), choices=["quick", "thorough"])
    ap.add_argument("--replay")
    a = ap.parse_args()
    from pyvc import core

    if a.replay:
        return subprocess.call([core.REPLAY_PY, a.replay])
    if not a.prop:
        ap.error("property id required")
    os.environ["VERIF_TIER"] = a.tier   # read by engines that are configured before the property module runs (GX repetition depth)
    mod = importlib.import_module(f"props.{a.prop}")
    return core.run_property(a.prop, a.tier, mod.run)


if __name__ == "__main__":
    sys.exit(main())
